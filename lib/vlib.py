"""Shared machinery for /verif checks: content-hashed builds of the library under
test (from /repo's working tree), engine builds, sharded engine runs, evidence
files, known findings.  Standard library only."""
import concurrent.futures as cf
import glob
import hashlib
import json
import os
import re
import shutil
import signal
import subprocess
import sys
import time

VERIF = os.path.dirname(os.path.dirname(os.path.abspath(__file__)))
REPO = os.environ.get("VERIF_REPO", "/repo")
BUILD = os.path.join(VERIF, "build")
NCPU = int(os.environ.get("VERIF_JOBS", "0")) or (os.cpu_count() or 4)
GUARD = "ORC_VERIF_HOOKS"

BASE_DEFS = ["-DHAVE_CONFIG_H", "-DORC_ENABLE_UNSTABLE_API", "-D_GNU_SOURCE"]

VARIANTS = {
    # name: (compiler, flags, hooks)
    "plain": ("gcc", ["-O1", "-g", "-fno-omit-frame-pointer"], True),
    # address + array-bounds instrumentation: the bounds check sees intra-object overflows of the fixed tables
    # (tokens[16], insns[100], vars[-1]) that AddressSanitizer cannot; other UBSan checks (null member address
    # computation, signed overflow) are not memory-safety verdicts and are left out on purpose
    "asan": ("gcc", ["-O1", "-g", "-fno-omit-frame-pointer", "-fsanitize=address,bounds",
                     "-fno-sanitize-recover=bounds"], True),
    "tsan": ("clang", ["-O1", "-g", "-fsanitize=thread"], True),
    "nohooks": ("gcc", ["-O1", "-g"], False),
}


def log(*a):
    print(*a, file=sys.stderr, flush=True)


def sha(*chunks):
    h = hashlib.sha256()
    for c in chunks:
        if isinstance(c, str):
            c = c.encode()
        h.update(c)
        h.update(b"\0")
    return h.hexdigest()[:16]


def lib_sources():
    """The source list orc/meson.build selects for this (x86-64, all back ends)
    configuration, read from the working tree so added files are picked up."""
    txt = open(os.path.join(REPO, "orc", "meson.build")).read()
    names = []
    for line in txt.splitlines():
        if line.lstrip().startswith("#"):
            continue
        for m in re.finditer(r"'([A-Za-z0-9_\-]+\.c)'", line):
            names.append(m.group(1))
    skip = {"orccpu-powerpc.c", "orccpu-arm.c", "orccpu-mips.c", "orcprogram-arm.c", "orcrules-arm.c"}
    out = []
    for n in names:
        if n in skip or n in out:
            continue
        if os.path.exists(os.path.join(REPO, "orc", n)):
            out.append(n)
    return out


def tree_hash():
    files = sorted(glob.glob(os.path.join(REPO, "orc", "*.[ch]")) + [os.path.join(REPO, "orc", "meson.build")])
    h = hashlib.sha256()
    for f in files:
        h.update(f.encode())
        h.update(open(f, "rb").read())
    h.update(open(os.path.join(VERIF, "cfg", "config.h"), "rb").read())
    return h.hexdigest()[:16]


def _prune(prefix, keep=3, min_age=12 * 3600):
    """Remove old builds: beyond the newest `keep`, and only when unused for min_age seconds (another check may still
    be running from a build made before the sources changed)."""
    ds = sorted(glob.glob(os.path.join(BUILD, prefix + "-*")), key=os.path.getmtime, reverse=True)
    now = time.time()
    for d in ds[keep:]:
        try:
            if now - os.path.getmtime(d) < min_age:
                continue
            if os.path.isdir(d):
                shutil.rmtree(d, ignore_errors=True)
            else:
                os.unlink(d)
        except OSError:
            pass


def run(cmd, **kw):
    return subprocess.run(cmd, stdout=subprocess.PIPE, stderr=subprocess.STDOUT, text=True, **kw)


def build_lib(variant="plain"):
    """Build liborc.a for the variant from /repo's working tree; returns dir."""
    cc, flags, hooks = VARIANTS[variant]
    th = tree_hash()
    key = sha(th, variant, " ".join(flags), cc)
    d = os.path.join(BUILD, "lib-%s-%s" % (variant, key))
    if os.path.exists(os.path.join(d, ".ok")):
        os.utime(d)
        return d
    shutil.rmtree(d, ignore_errors=True)
    os.makedirs(d)
    srcs = lib_sources()
    defs = BASE_DEFS + ["-DBUILDING_ORC"] + (["-D" + GUARD] if hooks else [])
    inc = ["-I" + os.path.join(VERIF, "cfg"), "-I" + REPO]

    def one(n):
        o = os.path.join(d, n[:-2] + ".o")
        r = run([cc] + flags + defs + inc + ["-w", "-c", os.path.join(REPO, "orc", n), "-o", o])
        return n, r.returncode, r.stdout, o

    objs = []
    with cf.ThreadPoolExecutor(NCPU) as ex:
        for n, rc, out, o in ex.map(one, srcs):
            if rc != 0:
                raise BuildError("library build failed (%s, %s):\n%s" % (variant, n, out))
            objs.append(o)
    r = run(["ar", "rcs", os.path.join(d, "liborc.a")] + objs)
    if r.returncode:
        raise BuildError(r.stdout)
    open(os.path.join(d, ".ok"), "w").write(th)
    _prune("lib-" + variant)
    return d


class BuildError(Exception):
    pass


def build_tool(name, variant="plain"):
    """Build tools/<name>.c (orcc, generate-emulation) against the variant lib."""
    libd = build_lib(variant)
    cc, flags, hooks = VARIANTS[variant]
    src = os.path.join(REPO, "tools", name + ".c")
    exe = os.path.join(libd, "%s-%s" % (name, sha(open(src, "rb").read())))
    if os.path.exists(exe):
        return exe
    defs = BASE_DEFS + (["-D" + GUARD] if hooks else [])
    r = run([cc] + flags + defs + ["-w", "-I" + os.path.join(VERIF, "cfg"), "-I" + REPO, src,
             os.path.join(libd, "liborc.a"), "-lm", "-lpthread", "-o", exe])
    if r.returncode:
        raise BuildError("tool build failed: %s\n%s" % (name, r.stdout))
    return exe


def build_engine(name, variant="plain", extra_src=(), extra_flags=(), libs=("-lm", "-lpthread"), cc_override=None,
                 per_src_flags=None):
    """Build engines/<name>.c (+extra sources, paths relative to /verif) against
    the variant library.  Returns the executable path."""
    libd = build_lib(variant)
    cc, flags, hooks = VARIANTS[variant]
    if cc_override:
        cc = cc_override
    srcs = [os.path.join(VERIF, "engines", name + ".c")] + [os.path.join(VERIF, s) for s in extra_src]
    hdrs = sorted(glob.glob(os.path.join(VERIF, "engines", "*.h")) + glob.glob(os.path.join(VERIF, "ref", "*.h")))
    h = hashlib.sha256()
    for f in srcs + hdrs:
        h.update(open(f, "rb").read())
    h.update((" ".join(extra_flags) + cc + libd + repr(per_src_flags)).encode())
    exe = os.path.join(BUILD, "eng-%s-%s-%s" % (name, variant, h.hexdigest()[:16]))
    if os.path.exists(exe):
        os.utime(exe)
        return exe
    defs = BASE_DEFS + (["-D" + GUARD] if hooks else [])
    inc = ["-I" + os.path.join(VERIF, "cfg"), "-I" + REPO, "-I" + os.path.join(VERIF, "engines"),
           "-I" + os.path.join(VERIF, "ref")]
    os.makedirs(BUILD, exist_ok=True)
    tmp = exe + ".tmp%d" % os.getpid()
    if per_src_flags:
        objs = []
        for i, s in enumerate(srcs):
            o = "%s.%d.o" % (tmp, i)
            fl = per_src_flags.get(os.path.basename(s), flags)
            r = run([cc] + list(fl) + defs + inc + list(extra_flags) + ["-w", "-c", s, "-o", o])
            if r.returncode:
                raise BuildError("engine build failed: %s\n%s" % (name, r.stdout))
            objs.append(o)
        r = run([cc] + flags + objs + [os.path.join(libd, "liborc.a")] + list(libs) + ["-o", tmp])
        for o in objs:
            os.unlink(o)
    else:
        r = run([cc] + flags + defs + inc + list(extra_flags) + ["-w"] + srcs + [os.path.join(libd, "liborc.a")] + list(libs) +
                ["-o", tmp])
    if r.returncode:
        raise BuildError("engine build failed: %s\n%s" % (name, r.stdout))
    os.rename(tmp, exe)
    _prune("eng-%s-%s" % (name, variant))
    return exe


def scrub_env(extra=None, scratch=None):
    """Environment for every child: orc's knobs removed, temp dirs pinned."""
    env = {k: v for k, v in os.environ.items()
           if k not in ("ORC_DEBUG", "ORC_CODE", "ORC_BACKEND", "ORC_TARGET", "XDG_RUNTIME_DIR")}
    if scratch:
        env["HOME"] = scratch
        env["TMPDIR"] = scratch
        env["XDG_RUNTIME_DIR"] = scratch
    env["ASAN_OPTIONS"] = "detect_leaks=0:abort_on_error=0:exitcode=99:allocator_may_return_null=1"
    env["UBSAN_OPTIONS"] = "print_stacktrace=1:halt_on_error=1:exitcode=98"
    env["TSAN_OPTIONS"] = "exitcode=97:halt_on_error=0"
    if extra:
        env.update(extra)
    return env


def scratch_dir(pid):
    d = os.path.join(BUILD, "scratch", "%s-%d" % (pid, os.getpid()))
    shutil.rmtree(d, ignore_errors=True)
    os.makedirs(d)
    return d


class Results:
    """Accumulates JSON-line records from engine shards."""

    def __init__(self):
        self.stats = {}
        self.viol = []
        self.samples = []
        self.notes = []
        self.incomplete = False
        self.raw_fail = []

    def feed(self, line):
        line = line.strip()
        if not line.startswith("{"):
            return
        try:
            r = json.loads(line)
        except ValueError:
            self.raw_fail.append(line[:300])
            return
        t = r.get("t")
        if t == "stat":
            for k, v in r.items():
                if k == "t":
                    continue
                if isinstance(v, (int, float)):
                    self.stats[k] = self.stats.get(k, 0) + v
        elif t == "max":
            for k, v in r.items():
                if k != "t":
                    self.stats[k] = max(self.stats.get(k, v), v)
        elif t == "viol":
            self.viol.append(r)
        elif t == "sample":
            if len(self.samples) < 12:
                r.pop("t")
                self.samples.append(r)
        elif t == "incomplete":
            self.incomplete = True
            self.notes.append(r.get("why", ""))
        elif t == "note":
            self.notes.append(r.get("msg", ""))


def run_shards(exe, argsets, env, timeout, res=None, cwd=None, ok_codes=(0,), label="", inputs=None, on_line=None):
    """Run one process per element of argsets (lists of argv tails), NCPU at a
    time; feed stdout JSON lines into a Results.  A shard that dies or times
    out is recorded as a 'shard' violation record (the engines confine crashes
    of the code under test themselves; an engine that dies is a broken check or
    a crash outside a confined region, and is reported with its output)."""
    res = res or Results()

    t_start = time.time()

    def one(job):
        i, args = job
        t0 = time.time()
        # "--deadline S" is a budget for the whole check, counted from the start of run_shards: a shard that is
        # launched later gets what is left (at least 10 s), so the check as a whole is bounded
        args = list(args)
        if "--deadline" in args:
            k = args.index("--deadline")
            try:
                left = float(args[k + 1]) - (t0 - t_start)
                args[k + 1] = int(max(10, left))
            except (ValueError, IndexError):
                pass
        try:
            p = subprocess.run([exe] + [str(a) for a in args], stdout=subprocess.PIPE, stderr=subprocess.PIPE,
                               env=env, timeout=timeout, cwd=cwd, input=(inputs[i].encode() if inputs else None))
            return args, p.returncode, p.stdout.decode("utf-8", "replace"), p.stderr.decode("utf-8", "replace"), time.time() - t0
        except subprocess.TimeoutExpired as e:
            return args, "timeout", (e.stdout or b"").decode("utf-8", "replace"), (e.stderr or b"").decode("utf-8", "replace"), time.time() - t0

    with cf.ThreadPoolExecutor(NCPU) as ex:
        for args, rc, out, err, dt in ex.map(one, list(enumerate(argsets))):
            for line in out.splitlines():
                if on_line and on_line(line):
                    continue
                res.feed(line)
            if rc == "timeout":
                res.incomplete = True
                res.notes.append("shard %s %s stopped by deadline after %.0fs" % (label, args, dt))
            elif rc not in ok_codes:
                res.viol.append({"t": "viol", "key": "engine-died|%s|rc=%s" % (label, rc),
                                 "what": "engine shard %s exited rc=%s: %s" % (args, rc, (err or out)[-1500:]),
                                 "replay": {"argv": [str(a) for a in args]}, "engine_failure": True})
    return res


# ---------------------------------------------------------------- findings

def load_findings():
    """known_findings.txt: one finding per line.  Open findings are JSON objects
    {"property","key","what"}; repaired ones are plain lines
    'fixed: property=<id> <commit> <what failed>' and suppress nothing."""
    p = os.path.join(VERIF, "known_findings.txt")
    out = []
    if os.path.exists(p):
        for l in open(p):
            l = l.strip()
            if l.startswith("{"):
                out.append(json.loads(l))
    return out


def finish(pid, tier, level, coverage, assumptions, viols, t0, seed=0):
    """Filter violations through the known-findings file, write replays and the
    evidence file, print the interface lines, return the exit code."""
    findings = [f for f in load_findings() if f.get("property") == pid and not f.get("fixed")]
    known = {}
    for f in findings:
        known[f["key"]] = f
    new = []
    seen_known = {}
    for v in viols:
        k = v.get("key", "")
        if k in known:
            seen_known.setdefault(k, v)
        else:
            new.append(v)
    for k, v in sorted(seen_known.items()):
        print("KNOWN-FINDING: property=%s %s [%s]" % (pid, known[k].get("what", ""), k))
    os.makedirs(os.path.join(VERIF, "replays"), exist_ok=True)
    # one replay per distinct key, at most 20 files
    bykey = {}
    for v in new:
        bykey.setdefault(v.get("key", "?"), v)
    if os.environ.get("VERIF_DUMP_VIOLS"):
        json.dump(sorted(bykey.values(), key=lambda v: v.get("key", "")), open(os.environ["VERIF_DUMP_VIOLS"], "w"), indent=1)
    n = 0
    for k, v in sorted(bykey.items()):
        n += 1
        if n > 20:
            break
        path = os.path.join(VERIF, "replays", "%s-%d.json" % (pid, n))
        json.dump({"property": pid, "key": k, "what": v.get("what"), "replay": v.get("replay")}, open(path, "w"), indent=1)
        print("VIOLATION property=%s replay=%s" % (pid, path))
        print("  key=%s :: %s" % (k, str(v.get("what"))[:600]))
    ev = {
        "property_id": pid,
        "tier": tier,
        "seed": seed,
        "level": level,
        "coverage": coverage,
        "assumptions": assumptions,
        "wall_s": round(time.time() - t0, 2),
        "violations": len(bykey),
    }
    if seen_known:
        ev["coverage"]["known_findings_reobserved"] = sorted(seen_known)
    os.makedirs(os.path.join(VERIF, "evidence"), exist_ok=True)
    json.dump(ev, open(os.path.join(VERIF, "evidence", pid + ".json"), "w"), indent=1, sort_keys=True)
    print("%s tier=%s wall=%.1fs violations=%d known=%d exhaustive=%s" % (
        pid, tier, ev["wall_s"], len(bykey), len(seen_known), coverage.get("exhaustive")))
    return 1 if bykey else 0
