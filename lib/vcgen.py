"""orcc -> gcc -> driver pipeline shared by C04 and C07.

A *unit* is one .orc file (a shard of an enumerated program level written by
engine xcgen, or a corpus file) with the call thunks xcgen emitted for it.  For
a unit, an orcc variant (option set) and a build mode, the generated C is
compiled and linked with engine xcdrv, which calls every function through its
prototype and compares with emulation."""
import concurrent.futures as cf
import json
import os
import subprocess

import vlib

DEFS = vlib.BASE_DEFS + ["-D" + vlib.GUARD]

# orcc option sets
VARIANTS = {
    "default": [],
    "eager": ["--init-function", "v_orc_init"],
    "eager-lazy": ["--init-function", "v_orc_init", "--lazy-init"],
    "nobackup": ["--no-backup"],
    "compat0411": ["--compat", "0.4.11"],		# OrcProgram-based wrappers, program built through the API
    "compat0415": ["--compat", "0.4.15"],		# OrcCode-based wrappers, program built through the API (no bytecode)
    "inline": ["--inline"],
}


def inc(unitdir):
    return ["-I" + os.path.join(vlib.VERIF, "cfg"), "-I" + vlib.REPO, "-I" + os.path.join(vlib.VERIF, "engines"),
            "-I" + os.path.join(vlib.VERIF, "ref"), "-I" + unitdir]


def run(cmd, **kw):
    return subprocess.run(cmd, stdout=subprocess.PIPE, stderr=subprocess.PIPE, **kw)


_drv = {}


def driver_object():
    """xcdrv.o, built once per (library, engine source) state."""
    if "o" in _drv:
        return _drv["o"]
    libd = vlib.build_lib("plain")
    src = os.path.join(vlib.VERIF, "engines", "xcdrv.c")
    h = vlib.sha(open(src).read(), open(os.path.join(vlib.VERIF, "engines", "vrun.h")).read(),
                 open(os.path.join(vlib.VERIF, "engines", "vcommon.h")).read(),
                 open(os.path.join(vlib.VERIF, "engines", "xcdrv.h")).read(), libd)
    o = os.path.join(vlib.BUILD, "xcdrv-%s.o" % h)
    if not os.path.exists(o):
        r = run(["gcc", "-O1", "-g", "-w"] + DEFS + inc(".") + ["-c", src, "-o", o + ".tmp%d" % os.getpid()])
        if r.returncode:
            raise vlib.BuildError("xcdrv build failed:\n" + r.stderr.decode()[-3000:])
        os.rename(o + ".tmp%d" % os.getpid(), o)
    _drv["o"] = o
    return o


def emit_units(scratch, levels, nshards, noalign=0, classes="both", corpus=(), stride=1):
    """Runs xcgen; returns list of (unitdir, name)."""
    xcgen = vlib.build_engine("xcgen", "plain")
    units = []
    jobs = []
    for i in range(0, nshards, stride):
        d = os.path.join(scratch, "u%03d" % i)
        os.makedirs(d, exist_ok=True)
        jobs.append((d, [xcgen, "--levels", levels, "--shard", str(i), "--nshards", str(nshards), "--noalign", str(noalign),
                         "--classes", classes, "--out", os.path.join(d, "s")]))
    for k, f in enumerate(corpus):
        d = os.path.join(scratch, "c%03d" % k)
        os.makedirs(d, exist_ok=True)
        jobs.append((d, [xcgen, "--file", f, "--out", os.path.join(d, "s")]))
    space = 0
    nfun = 0
    for d, cmd in jobs:
        r = run(cmd)
        if r.returncode:
            raise vlib.BuildError("xcgen failed: %s\n%s" % (cmd, r.stderr.decode()[-2000:]))
        n = 0
        for l in r.stdout.decode().splitlines():
            if l.startswith("{"):
                j = json.loads(l)
                n = j.get("functions_emitted", n)
                space = max(space, j.get("space_size", 0))
        if n:
            units.append(d)
            nfun += n
    return units, space, nfun


def generate(unitdir, variant):
    """orcc --implementation / --header for the unit under an option set.
    Returns (ok, message)."""
    orcc = vlib.build_tool("orcc")
    opts = VARIANTS[variant]
    vd = os.path.join(unitdir, variant)
    os.makedirs(vd, exist_ok=True)
    src = os.path.join(unitdir, "s.orc")
    for mode, out in (("--implementation", "impl.c"), ("--header", "impl.h")):
        r = run([orcc] + opts + [mode, "-o", os.path.join(vd, out), src], timeout=300)
        if r.returncode:
            return False, "orcc %s %s failed (rc %d): %s" % (" ".join(opts), mode, r.returncode, (r.stderr.decode() + r.stdout.decode())[-600:])
    return True, ""


def build(unitdir, variant, bmode, opt="-O2"):
    """bmode: 'noorc' (-DDISABLE_ORC) or 'orc'; opt: an optimisation flag, optionally prefixed 'clang:'.
    Returns (exe or None, message)."""
    libd = vlib.build_lib("plain")
    vd = os.path.join(unitdir, variant)
    cc = "gcc"
    if opt.startswith("clang:"):
        cc, opt = "clang", opt[6:]
    tag = "%s%s%s" % (bmode, opt, "" if cc == "gcc" else "-clang")
    d = ["-DDISABLE_ORC"] if bmode == "noorc" else []
    init = ["-DV_INIT_FN=v_orc_init"] if "--init-function" in VARIANTS[variant] else []
    objs = []
    if variant != "inline":
        o = os.path.join(vd, "impl_%s.o" % tag)
        r = run([cc, opt] + d + DEFS + inc(vd) + ["-c", os.path.join(vd, "impl.c"), "-o", o])
        if r.returncode:
            return None, "generated implementation does not compile (%s %s): %s" % (variant, tag, r.stderr.decode()[-1500:])
        objs.append(o)
    o = os.path.join(vd, "calls_%s.o" % tag)
    r = run(["gcc", "-O1"] + d + init + DEFS + inc(vd) + ["-Werror=int-conversion", "-Werror=implicit-function-declaration",
             "-c", os.path.join(unitdir, "s_calls.c"), "-o", o])
    if r.returncode:
        return None, "call through the generated prototypes does not compile (%s %s): %s" % (variant, tag, r.stderr.decode()[-1500:])
    objs.append(o)
    exe = os.path.join(vd, "drv_%s" % tag)
    r = run(["gcc", "-o", exe, driver_object()] + objs + [os.path.join(libd, "liborc.a"), "-lm", "-lpthread"])
    if r.returncode:
        return None, "link failed (%s %s): %s" % (variant, tag, r.stderr.decode()[-1500:])
    return exe, ""


def drive(exe, unitdir, prop, label, env, tier, orc_code=None, floatmode="exact", timeout=1800, only=None):
    e = dict(env)
    if orc_code:
        e["ORC_CODE"] = orc_code
    cmd = [exe, "--orc", os.path.join(unitdir, "s.orc"), "--prop", prop, "--mode", label, "--tier", tier, "--floatmode", floatmode]
    if only:
        cmd += ["--only", only]
    try:
        r = run(cmd, env=e, timeout=timeout)
        return r.returncode, r.stdout.decode("utf-8", "replace"), r.stderr.decode("utf-8", "replace")
    except subprocess.TimeoutExpired as ex:
        return "timeout", (ex.stdout or b"").decode("utf-8", "replace"), ""


def pipeline(job):
    """job = dict(unit, variant, builds=[(bmode, opt, [(label, orc_code, floatmode)])], prop, env, tier).
    Returns dict(lines=[json lines], viol=[...], stats)."""
    unit, variant, prop = job["unit"], job["variant"], job["prop"]
    out = {"lines": [], "viol": [], "builds": 0, "runs": 0, "unit": unit}
    uname = os.path.basename(unit)

    def viol(kind, what):
        out["viol"].append({"t": "viol", "key": "%s|%s|%s|%s" % (prop, variant, kind, uname if uname.startswith("c") else "generated"),
                            "what": "%s [unit %s: %s]" % (what, uname, job.get("desc", {}).get(unit, "")),
                            "replay": {"unit": uname, "variant": variant, "kind": kind}})

    ok, msg = generate(unit, variant)
    if not ok:
        viol("orcc-failed", msg)
        return out
    for bmode, opt, runs in job["builds"]:
        exe, msg = build(unit, variant, bmode, opt)
        out["builds"] += 1
        if not exe:
            viol("compile-failed-" + bmode, msg)
            continue
        for label, orc_code, floatmode in runs:
            rc, so, se = drive(exe, unit, prop, "%s/%s" % (variant, label), job["env"], job["tier"], orc_code, floatmode)
            out["runs"] += 1
            out["lines"].extend(so.splitlines())
            if rc != 0:
                viol("driver-died-" + label, "driver exited rc=%s: %s" % (rc, (se or so)[-800:]))
        try:
            os.unlink(exe)
        except OSError:
            pass
    return out


def run_jobs(jobs, res):
    tot = {"builds": 0, "runs": 0}
    viols = []
    driver_object()
    vlib.build_tool("orcc")
    with cf.ThreadPoolExecutor(vlib.NCPU) as ex:
        for o in ex.map(pipeline, jobs):
            for l in o["lines"]:
                res.feed(l)
            viols.extend(o["viol"])
            tot["builds"] += o["builds"]
            tot["runs"] += o["runs"]
    return tot, viols
