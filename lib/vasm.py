"""GNU as / objdump helpers for C11 (ISA level of an instruction form) and C12
(listing vs code bytes)."""
import os
import re
import subprocess

NOPW = ("nop", "xchg   %ax,%ax", "data16", "cs nopw", "lea    0x0(%esi,%eiz,1),%esi", "lea    0x0(%esi),%esi",
        "lea    0x0(%edi,%eiz,1),%edi", "mov    %esi,%esi", "xchg   %ax,%ax")

HDR = re.compile(r"^[0-9a-f]+ <([^>]+)>:$")
BR = re.compile(r"^(j[a-z]+|call|loop[a-z]*|jmp)\s+([0-9a-f]+) <[^>]*>$")
NUM = re.compile(r"(?<![%\w])-?(0x[0-9a-f]+|\d+)")
REG = re.compile(r"%(xmm|ymm|mm|st)\d+")
GP64 = re.compile(r"%(r[a-z0-9]+)")


def is_nop(t):
    return t.startswith("nop") or t.startswith("data16") or t.startswith("cs nopw") or t == "xchg   %ax,%ax" or \
        (t.startswith("lea    0x0(%e") and t.endswith("i")) or t == "mov    %esi,%esi"


def assemble(src, obj, bits, extra=()):
    """Returns (ok, [(line_no, message)])"""
    p = subprocess.run(["as", "--%d" % bits, *extra, "-o", obj, src], stdout=subprocess.PIPE, stderr=subprocess.PIPE)
    errs = []
    for l in p.stderr.decode(errors="replace").splitlines():
        m = re.match(r"^[^:]*:(\d+): Error: (.*)$", l)
        if m:
            errs.append((int(m.group(1)), m.group(2)))
    return p.returncode == 0 and os.path.exists(obj), errs


def disassemble(obj):
    """name -> (addrs, insns) with nops removed and branch targets turned into
    instruction indices."""
    p = subprocess.run(["objdump", "-d", "--no-show-raw-insn", "-w", obj], stdout=subprocess.PIPE)
    out = {}
    cur = None
    for line in p.stdout.decode(errors="replace").split("\n"):
        a, sep, t = line.partition(":\t")
        if not sep:
            m = HDR.match(line)
            if m:
                cur = ([], [])
                out[m.group(1)] = cur
            continue
        if cur is None:
            continue
        t = t.strip()
        cur[0].append(int(a, 16))
        cur[1].append(t)
    res = {}
    for name, (addrs, insns) in out.items():
        res[name] = normalise(addrs, insns)
    return res


def normalise(addrs, insns):
    # strip trailing sentinel + padding
    n = len(insns)
    while n > 0 and (is_nop(insns[n - 1]) or insns[n - 1] == "ud2"):
        n -= 1
    keep = [i for i in range(n) if not is_nop(insns[i])]
    index_of = {}
    # address -> index (in kept list) of first kept instruction at or after it
    ki = 0
    pos = {}
    for j, i in enumerate(keep):
        pos[i] = j
    nxt = len(keep)
    amap = {}
    for i in range(n - 1, -1, -1):
        if i in pos:
            nxt = pos[i]
        amap[addrs[i]] = nxt
    res = []
    for i in keep:
        t = insns[i]
        c = t.find("#")
        if c >= 0:
            t = t[:c].rstrip()
        m = BR.match(t)
        if m:
            tgt = int(m.group(2), 16)
            t = "%s @%s" % (m.group(1), amap.get(tgt, "outside:%x" % (tgt - addrs[0])))
        else:
            t = t.replace(" 0x0(", " (").replace(",0x0(", ",(")
            t = " ".join(t.split())
        res.append(t)
    return res


def reduce_form(t):
    """operand-class form of a disassembled instruction, for stable keys"""
    t = REG.sub(lambda m: "%" + m.group(1), t)
    t = NUM.sub("N", t)
    t = re.sub(r"%r(\d+)([dwb]?)", lambda m: "%r" + {"": "64", "d": "32", "w": "16", "b": "8"}[m.group(2)], t)
    t = re.sub(r"%(rax|rbx|rcx|rdx|rsi|rdi|rbp|rsp)", "%r64", t)
    t = re.sub(r"%(eax|ebx|ecx|edx|esi|edi|ebp|esp)", "%r32", t)
    t = re.sub(r"%(ax|bx|cx|dx|si|di|bp|sp)\b", "%r16", t)
    t = re.sub(r"%(al|bl|cl|dl|sil|dil|ah|bh|ch|dh)\b", "%r8", t)
    return t


LEVELS = ["base", "sse", "sse2", "sse3", "ssse3", "sse4.1", "sse4.2", "avx", "avx2"]
_level_cache = {}


def isa_level(form, bits, tmpdir):
    """Minimal ISA level (index into LEVELS) under which GNU as accepts the
    instruction form; None if it is rejected at every level."""
    key = (form, bits)
    if key in _level_cache:
        return _level_cache[key]
    if form in ("endbr32", "endbr64"):
        # hint-NOP space: executes as a NOP on every CPU (gas wants +ibt for it)
        _level_cache[key] = (0, None)
        return _level_cache[key]
    text = (form + "\n9:\n").encode()
    lvl = None
    msg = None
    for i, l in enumerate(LEVELS):
        # base = integer (incl. cmov) + MMX on both widths
        march = ("generic64+mmx+nosse" if bits == 64 else "i686+mmx+nosse") + ("" if l == "base" else "+" + l)
        p = subprocess.run(["as", "--%d" % bits, "-march=" + march, "-o", "/dev/null", "-"], input=text, stdout=subprocess.PIPE, stderr=subprocess.PIPE)
        if p.returncode == 0:
            lvl = i
            break
        msg = p.stderr.decode(errors="replace")
    _level_cache[key] = (lvl, None if lvl is not None else msg)
    return _level_cache[key]
