"""Cross-assembler leg of C12: 32-bit NEON and MIPS listings against the code
bytes Orc emitted, with clang's integrated assembler as the standard assembler.

Engine xasm (mode cross) writes, per (target, flag vector, shard), a .lst file
("@@ name" + the listing of each compiled program, preceded by the target's own
assembler preamble) and an .idx file (name, code bytes in hex, description).
All functions of a file are assembled in one clang run (labels made unique per
function); the .text bytes between consecutive function symbols are compared
with Orc's bytes.  Where bytes differ, both sides are disassembled with
llvm-objdump and compared instruction by instruction: equal renderings are two
encodings of the same instruction (the nop and single-register push/pop
encodings the property allows), unequal ones are violations."""
import os
import re
import subprocess

TRIPLE = {
    "neon": ["--target=armv7a-linux-gnueabihf", "-mfpu=neon", "-marm"],
    "mips": ["--target=mipsel-linux-gnu", "-mips32r2", "-mdspr2"],
}
OBJDUMP = {
    "neon": ["llvm-objdump", "-d", "--triple=armv7a", "--mattr=+neon"],
    "mips": ["llvm-objdump", "-d", "--triple=mipsel", "--mattr=+dspr2,+mips32r2"],
}
LABEL = re.compile(r"\.L()(\d+)\b")
INSN = re.compile(r"^\s*([0-9a-f]+):\s+(\S.*)$")
ERR = re.compile(r"^[^:]*:(\d+):\d+: error: (.*)$")


def run(cmd, **kw):
    return subprocess.run(cmd, stdout=subprocess.PIPE, stderr=subprocess.PIPE, **kw)


def read_records(lst):
    """-> (preamble, [(name, [lines])])"""
    pre, recs, cur = [], [], None
    for l in open(lst):
        l = l.rstrip("\n")
        if l == "@@preamble":
            cur = pre
        elif l.startswith("@@ "):
            cur = []
            recs.append((l[3:], cur))
        elif cur is not None:
            cur.append(l)
    return pre, recs


def write_source(path, pre, recs, skip=()):
    """one assembler file; returns {line_no: record index}"""
    owner = {}
    n = 0
    with open(path, "w") as f:
        def w(s, k=None):
            nonlocal n
            f.write(s + "\n")
            n += 1
            if k is not None:
                owner[n] = k
        w(".text")
        for l in pre:
            if l.strip():
                w(l)
        for k, (name, lines) in enumerate(recs):
            if k in skip:
                continue
            own = re.compile(r"\.L" + re.escape(name) + r"(\d+)\b")		# MIPS: .L<function name><number>
            for l in lines:
                if l.startswith("#"):		# Orc's per-instruction comments
                    continue
                l = own.sub(lambda m: ".L_%d_%s" % (k, m.group(1)), l)
                w(LABEL.sub(lambda m: ".L%s%s_%d" % (m.group(1), m.group(2), k), l), k)
        w("v_end_of_text:")
    return owner


def symbols(obj):
    out = {}
    r = run(["llvm-nm", "-n", obj])
    for l in r.stdout.decode().splitlines():
        p = l.split()
        if len(p) == 3 and p[1] in "Tt":
            out[p[2]] = int(p[0], 16)
    return out


def disasm_words(target, data, tmp):
    """disassemble raw code bytes -> list of instruction strings (one per word)"""
    s = tmp + ".words.s"
    with open(s, "w") as f:
        f.write(".text\nw:\n")
        for i in range(0, len(data), 4):
            f.write(".byte " + ",".join("0x%02x" % c for c in data[i:i + 4]) + "\n")
    o = tmp + ".words.o"
    r = run(["clang", "-c"] + TRIPLE[target] + [s, "-o", o])
    if r.returncode:
        return None
    r = run(OBJDUMP[target] + ["--no-show-raw-insn", o])
    res = []
    for l in r.stdout.decode().splitlines():
        m = INSN.match(l)
        if m:
            t = " ".join(m.group(2).split())
            t = re.sub(r"\s*<[^>]*>", "", t)
            res.append(t)
    if len(res) != len(data) // 4:
        return None
    for f_ in (s, o):
        try:
            os.unlink(f_)
        except OSError:
            pass
    return res


def process(job):
    """job = (base, target, flags) -> dict(viol, functions, equal, equal_mod_encoding, words, rejected_functions, as_runs)"""
    base, target, flags = job
    out = {"viol": [], "functions": 0, "equal": 0, "equal_mod_encoding": 0, "words": 0, "rejected_functions": 0, "as_runs": 0}
    vkeys = set()
    pre, recs = read_records(base + ".lst")
    idx = {}
    for l in open(base + ".idx"):
        p = l.rstrip("\n").split("\t")
        if len(p) >= 3:
            idx[p[0]] = (bytes.fromhex(p[1]), p[2])

    def viol(key, what, name, extra=None):
        if key in vkeys:
            return
        vkeys.add(key)
        rep = {"program": idx.get(name, (b"", name))[1], "name": name, "target": target, "flags": flags, "cross": 1}
        if extra:
            rep.update(extra)
        out["viol"].append({"t": "viol", "key": key, "what": what, "replay": rep})

    if not recs:
        return out
    src, obj = base + ".s", base + ".o"
    skip = set()
    for attempt in range(3):
        owner = write_source(src, pre, recs, skip)
        r = run(["clang", "-c"] + TRIPLE[target] + [src, "-o", obj])
        out["as_runs"] += 1
        if r.returncode == 0:
            break
        lines = open(src).read().split("\n")
        new = 0
        for l in r.stderr.decode(errors="replace").splitlines():
            m = ERR.match(l)
            if not m:
                continue
            ln, msg = int(m.group(1)), m.group(2)
            k = owner.get(ln)
            if k is None:
                continue
            text = " ".join(lines[ln - 1].split())
            if k not in skip:
                skip.add(k)
                new += 1
            form = re.sub(r"-?(0x[0-9a-fA-F]+|\d+)", "N", text)
            viol("C12|%s|rejected|%s|%s" % (target, form, msg),
                 "the standard assembler (clang %s) rejects the listing line `%s` (%s); target %s flags 0x%x; program: %s"
                 % (" ".join(TRIPLE[target]), text, msg, target, flags, idx.get(recs[k][0], (b"", "?"))[1]), recs[k][0], {"line": text})
        if not new:
            viol("C12|%s|as-failed" % target, "clang failed without a parsable error: %s" % r.stderr.decode(errors="replace")[-300:], None)
            return out
    else:
        viol("C12|%s|as-failed-thrice" % target, "clang still fails after removing rejected functions", None)
        return out
    out["rejected_functions"] = len(skip)
    binf = base + ".text.bin"
    run(["llvm-objcopy", "-O", "binary", "-j", ".text", obj, binf])
    text = open(binf, "rb").read()
    sym = symbols(obj)
    order = [(sym[name], k, name) for k, (name, _) in enumerate(recs) if k not in skip and name in sym]
    order.sort()
    end = sym.get("v_end_of_text", len(text))
    for j, (addr, k, name) in enumerate(order):
        stop = order[j + 1][0] if j + 1 < len(order) else end
        a = text[addr:stop]
        b = idx[name][0]
        out["functions"] += 1
        out["words"] += len(b) // 4
        if a == b:
            out["equal"] += 1
            continue
        if len(a) == len(b) and canon(target, a) == canon(target, b):
            out["equal_mod_encoding"] += 1
            continue
        # report on the canonical forms, so that only differences the property does not allow are shown
        da = disasm_words(target, canon(target, a), base + ".a")
        db = disasm_words(target, canon(target, b), base + ".b")
        if da is None or db is None:
            viol("C12|%s|harness|disassemble" % target, "could not disassemble", name)
            continue
        if len(da) == len(db):
            ks = [i for i in range(len(da)) if da[i] != db[i]]
            if not ks:
                # not one of the encodings the property allows to differ, yet rendered alike by the disassembler
                ca, cb = canon(target, a), canon(target, b)
                ks = [i // 4 for i in range(0, len(ca), 4) if ca[i:i + 4] != cb[i:i + 4]]
        else:
            i = 0
            while i < len(da) and i < len(db) and da[i] == db[i]:
                i += 1
            ks = [i]
        for i in ks:
            la = da[i] if i < len(da) else "<end>"
            lb = db[i] if i < len(db) else "<end>"
            if nop_like(target, la) and nop_like(target, lb):
                continue
            fa = re.sub(r"-?(0x[0-9a-fA-F]+|\d+)", "N", la)
            fb = re.sub(r"-?(0x[0-9a-fA-F]+|\d+)", "N", lb)
            viol("C12|%s|diff|%s != %s" % (target, fa, fb),
                 "word %d differs: the listing assembles to `%s` (%s), Orc emitted `%s` (%s) (listing %d words, code %d); target %s flags 0x%x; program: %s"
                 % (i, la, a[4 * i:4 * i + 4][::-1].hex(), lb, b[4 * i:4 * i + 4][::-1].hex(), len(da), len(db), target, flags, idx[name][1]),
                 name, {"index": i, "listing": la, "bytes": lb})
        else:
            if not any(v["replay"].get("name") == name for v in out["viol"]):
                out["equal_mod_encoding"] += 1
    for f in (src, obj, binf):
        if os.path.exists(f):
            os.unlink(f)
    return out


def canon(target, data):
    """code bytes with the encodings the property treats as equal mapped to one representative: the nop encodings
    (ARM: mov r0, r0 / the architectural nop; MIPS: or $at, $at, $0 / sll $0, $0, 0) and the two encodings of a
    single-register push/pop (stmdb/ldmia with one register, str/ldr with writeback)"""
    out = bytearray(data)
    for i in range(0, len(data) - 3, 4):
        w = data[i] | data[i + 1] << 8 | data[i + 2] << 16 | data[i + 3] << 24
        n = w
        if target == "mips":
            if w == 0x00200825:
                n = 0
        else:
            if w == 0xe1a00000:
                n = 0xe320f000
            elif (w & 0xffff0000) in (0xe92d0000, 0xe8bd0000) and bin(w & 0xffff).count("1") == 1:
                r = (w & 0xffff).bit_length() - 1
                n = (0xe52d0004 if (w & 0xffff0000) == 0xe92d0000 else 0xe49d0004) | r << 12
        if n != w:
            out[i:i + 4] = bytes((n & 255, n >> 8 & 255, n >> 16 & 255, n >> 24 & 255))
    return bytes(out)


def nop_like(target, t):
    """the encodings of 'do nothing' the two sides use"""
    t = t.strip()
    if target == "mips":
        return t in ("nop", "or $1, $1, $zero", "move $1, $1", "sll $zero, $zero, 0")
    return t in ("nop", "mov r0, r0", "mov r1, r1")
