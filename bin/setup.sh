#!/bin/sh
# MANIFEST.setup_cmd: build the library variants and engines from files on disk (offline).
set -e
cd "$(dirname "$0")/.."
python3 - <<'PY'
import sys
sys.path.insert(0, "lib")
import vlib
for v in ("plain", "asan"):
    print("lib", v, vlib.build_lib(v))
print("nohooks", vlib.build_lib("nohooks"))
PY
echo setup ok
