#!/usr/bin/env python3
"""Regenerates MANIFEST.json from the table below (single source of truth)."""
import json
import os
import subprocess

VERIF = os.path.dirname(os.path.dirname(os.path.abspath(__file__)))

CHECKS = {
    # id: (engine, category, technique, text, note, design_ref, has_thorough)
    "C01": ("xprog", "exploration",
            "bounded exhaustive enumeration of program space x input space on the real JIT, emulation as reference",
            "Every program of the enumerated levels (all single-opcode forms, all opcode pairs, length-3 chains, the .orc corpus, "
            "pressure programs) is compiled for avx, sse and mmx and executed natively against emulation for every n in 0..N, every "
            "lead alignment mod 32, 2-D shapes and complete value tables (all byte values, boundary alphabets for wider lanes). "
            "Complete within the stated alphabets and bounds; says nothing about longer programs or non-boundary 32/64-bit values.",
            "trusts orc_executor_emulate as the oracle (C02 checks it), the host CPU, gcc; harness array/guard layout",
            "DESIGN.md 4/C01", True),
    "C09": ("xhist", "model_checking",
            "explicit-state breadth-first search over operation histories on the real allocator, canonical-state deduplication, invariants + interval-set reference model in every state",
            "All alloc/compile/free histories up to the stated depth over a size alphabet that forces exact fit, split, tiny remainder, region "
            "exhaustion and new-region paths are executed on the real code (each transition in a fresh fork of the replayed state); every "
            "reached state is checked for tiling, coalescing, disjoint live objects with intact bytes (compiled functions are re-run), "
            "reuse against an interval-set model, and the free-everything / repeat-history closure.",
            "walker hook orc_verif_codemem_walk reports the chunk lists faithfully; sizes above one region and multi-threaded histories excluded",
            "DESIGN.md 4/C09", True),
    "C19": ("xcpu", "model_checking",
            "exhaustive enumeration of configuration vectors through the cpuid/xgetbv hooks, one process per vector, pure-function reference model of target selection",
            "Every subset of the 12 CPU/OS feature inputs, crossed with vendor, maximum cpuid leaf, the documented and the legacy override "
            "variable with every target name (and an unknown one) and ORC_CODE feature knock-outs, is presented to a fresh process; "
            "executability, default flags, default target, by-name selection and what the default compile path installs are compared with "
            "a model written from the property (safety obligations on all vectors, selection obligations on consistent ones).",
            "cpuid/xgetbv hooks replace the instructions faithfully (answers above the maximum leaf follow the vendor's documented behaviour); "
            "code for non-host configurations is classified by its listing, not executed",
            "DESIGN.md 4/C19", True),
    "C14": ("xparse", "exploration",
            "bounded exhaustive enumeration of parser inputs (line sequences over a line alphabet, limit files, all short byte strings) on the real parser under ASan + array-bounds instrumentation",
            "Every sequence of up to 3 lines over a 60-line alphabet of valid and malformed directives/opcodes (x LF/CRLF/no final newline x "
            "inside/outside a function), a set of limit files, and every byte string up to the stated length over a 13-byte alphabet are "
            "parsed; error records are checked (text, line number within the file, the known-malformed line is reported), every returned "
            "program is compiled and freed, the error list is freed, under AddressSanitizer with -fsanitize=bounds.",
            "sanitizers see heap/stack/array-index violations, not every intra-object overwrite; line alphabet and byte alphabet are stated, longer inputs are not covered",
            "DESIGN.md 4/C14", True),
    "C13": ("xbc", "exploration",
            "bounded exhaustive enumeration of the program space plus boundary encodings; encode/decode/re-encode on the real code with structural, byte-level and behavioural comparison",
            "Every program of the enumerated levels (integer and float, all operand kinds, x2/x4, 2-D, alignments, corpus) and every "
            "boundary encoding (all boundary constants per size incl. float bit patterns, length fields at 253..257/65534, all variable slots "
            "and parameter classes, 1..100 instructions) is serialised, reconstructed, compared field by field, re-serialised (bytes equal) "
            "and emulated against the original.",
            "format limits (length fields <= 65534) bound the space; names/type names are not carried by the format; ASan + bounds instrumentation",
            "DESIGN.md 4/C13", True),
    "C08": ("xsched", "model_checking",
            "stateless model checking: exhaustive enumeration of thread interleavings of the real library under a cooperative scheduler with iterative preemption bounding; ThreadSanitizer free-running pass as a monitor",
            "Five scenarios (concurrent orc_init; concurrent first calls through two once-guarded wrappers using the real orc_once_enter/leave; "
            "concurrent compile/take_code/run/free plus raw allocations of forced sizes; concurrent runs of one function while another thread "
            "compiles and frees; concurrent emulation and native runs of one shared code object on per-thread data, interleaved at every "
            "emulated instruction) are executed for every interleaving of 2 threads (preemption bound 3 quick / 5-8 thorough) and 3 threads "
            "(bound 2 / 2-5) at the hooked synchronisation points, each schedule in a fresh process. Oracles: no crash or deadlock, per-thread "
            "results correct, exactly-once initialisation with every caller seeing the initialised object, allocator invariants, and an end "
            "state equal to the sequential run. Failures are replayed twice before being reported.",
            "sequential consistency between scheduling points; the hook points cover the library's complete synchronisation inventory; unsynchronised accesses are left to the TSan pass",
            "DESIGN.md 4/C08", True),
    "C16": ("xlife", "model_checking",
            "exhaustive enumeration of all legal lifecycle operation sequences up to a depth bound (legality from a reference state machine), each executed on the real library under AddressSanitizer with resource accounting",
            "Every legal sequence of up to 6 (quick) / 8 (thorough) lifecycle operations over one program, one kept executor and one detached "
            "code object is executed 4 times in a fresh process: no sanitizer report, every run/emulate result equal to the expected vector, "
            "invalid programs compile to a fatal result, and live heap bytes, used code chunks, regions and descriptors do not grow with repetitions.",
            "legality rules are the documented ones (stated in the evidence); AddressSanitizer's allocator statistics; one object of each kind",
            "DESIGN.md 4/C16", True),
    "C06": ("xfault", "fault_enumeration",
            "exhaustive enumeration of fault vectors (failing call indexes up to k, persistent failure of call-class subsets) x configuration vectors on the real init/compile/run paths with link-time interposition of mkstemp/ftruncate/mmap",
            "For every configuration (environment directories, ORC_CODE, backup function, executor kind, program kind) every set of up to "
            "2 (quick) / 3 (thorough) failing calls among the first 40 mkstemp/ftruncate/mmap calls, and every persistently failing subset of "
            "the five call classes (from start / from after init), is injected into a fresh process that initialises and then compiles, "
            "runs and frees 8 times; results must equal independently computed expectations or the backup must have run exactly once, "
            "valid programs must never turn fatal, nothing may crash, descriptors and mappings must not grow.",
            "the three interposed calls are the complete set used to obtain executable memory; errno values are the documented ones",
            "DESIGN.md 4/C06", True),
    "C20": ("xreg", "model_checking",
            "explicit enumeration of all legal registration histories up to a depth bound on the real registries (one process per history), probe programs after each, differential oracle against the empty history",
            "Every legal order of up to 4 (quick) / 5 (thorough) registration operations - opcode sets whose names are fresh, extend a built-in "
            "name, are a prefix of built-in names or have 15 characters; rule sets per target with required flags none/present/absent; "
            "overriding rule sets for a built-in opcode - is applied in a fresh process within each target's rule-set capacity, then "
            "extension-only, mixed and built-in programs are emulated and compiled for sse/avx(/mmx): name resolution, use of the "
            "application's emulation function, latest-satisfied-rule precedence, results, and byte-identical code for untouched built-ins.",
            "application rules use the public emit macros; histories stay within ORC_N_RULE_SETS",
            "DESIGN.md 4/C20", True),
    "C17": ("xdet", "model_checking",
            "explicit enumeration of preceding histories x debug levels, each replayed in a fresh process before compiling the full probe set for all registered targets; digest equality with the empty-history baseline",
            "Every history of up to 1 (all probes) / 2 (corpus + pressure probes) operations in the quick tier, 2 / 3 in the thorough tier, over "
            "{compile+keep for avx, compile+keep for sse, free oldest, compile+run+free, failed compile, fatal compile, compile for neon, "
            "application heap traffic}, with and without heap poisoning and under several ORC_DEBUG levels, is applied in a fresh process; "
            "then every single-opcode program (integer and float) and the corpus is compiled for all 8 targets and code/listing digests must "
            "equal the baseline. In-process: recompile after reset reproduces the code, three runs of one function agree.",
            "digests (64-bit FNV) stand for the bytes; explicit program names; non-native targets compiled only",
            "DESIGN.md 4/C17", True),
    "C10": ("xabi", "exploration",
            "bounded exhaustive enumeration of compiled programs x targets x n x machine-state seeds, each called directly through an assembly trampoline that seeds and inspects the architectural state",
            "Every natively compiled (program, target) pair of the enumerated space (all single-opcode programs incl. float, corpus, "
            "register-pressure and 12-array programs, 2-D) is called with sentinel values in rbx/rbp/r12-r15, every MXCSR rounding/FTZ/DAZ "
            "combination, canary words in the caller's frame and the executor flush against PROT_NONE pages; afterwards callee-saved "
            "registers, rsp, the canaries, MXCSR control bits, DF and the x87/MMX tag word are compared.",
            "System V AMD64 ABI; MXCSR status bits are not preserved by definition; array/source integrity is C01/C03's subject",
            "DESIGN.md 4/C10", True),
    "C03": ("xmem", "exploration",
            "bounded exhaustive enumeration of programs x execution paths x n x guard-page placements on the real code, entitlement computed from the opcode definitions",
            "Every program of the enumerated levels is run natively (avx, sse, mmx) and by emulation for every n in 0..N with each array "
            "holding exactly the entitled elements and placed flush after a leading or before a trailing PROT_NONE page, rows separated "
            "by unmapped pages, sources mapped read-only, executor scratch fields holding garbage; any fault or any changed destination "
            "byte outside elements 0..n-1 is reported with array, direction and offset.",
            "entitlement of the resampling/upsampling loads follows the opcode table's index expressions; declared alignments larger than the element size prevent flush placement of the last byte; generated-C path not run under guard pages",
            "DESIGN.md 4/C03", True),
    "C02": ("xemu+xrefprog", "exploration",
            "exhaustive enumeration of operand tables per opcode on the emulation path against an independently written reference interpreter, plus literal evaluation of the documented pseudo code",
            "Every non-float opcode in every form (x1/x2/x4, array/constant/parameter operand) is emulated over all 8/16-bit operand values, "
            "all byte pairs, 16-bit pairs (boundary x all in quick, all 2^32 in thorough), all boundary pairs for 32/64-bit lanes, every "
            "shift count, accumulation lengths and load index functions; each element is compared with ref/orcref.h; prefixes n=1..48 must "
            "reproduce the full run; the live table is compared with doc/opcode_table.xml (sizes, presence, pseudo code). Float opcodes on the "
            "emulation path likewise. Program level: 41 k multi-instruction integer programs (all L2 pairs, L3 chains, L1, and family LS: one scalar "
            "feeding two instructions of different element width) are interpreted from their descriptor with the same reference and compared "
            "with what orc_executor_emulate leaves.",
            "the reference encodes my reading of the opcode reference (assumptions listed in the evidence); 32/64-bit lanes on boundary alphabets",
            "DESIGN.md 4/C02", True),
    "C18": ("xemu+xprog", "exploration",
            "exhaustive enumeration of all pairs of a structured float operand alphabet per opcode and path (emulation, sse, avx) against the reference, plus JIT-vs-emulation exploration of float programs",
            "Every float/double opcode form is run on the emulation, sse-native and avx-native paths over all pairs of a 56-value structured "
            "alphabet per width and compared with an IEEE-with-flush reference (exact bits for finite operands, either operand for equal "
            "min/max, any NaN where due); float programs are run natively against emulation over n, alignment, 2-D and finite all-pairs tables.",
            "caller MXCSR default; generated-C path covered by C04/C07; operands outside the alphabet not covered",
            "DESIGN.md 4/C18", True),
    "C15": ("xtext", "exploration",
            "bounded exhaustive enumeration of program descriptors x text renderings (formatting cross product) parsed by the real parser and compared with an API-built twin",
            "Every program descriptor of the enumerated levels is rendered by an independent printer over the cross product of line endings, "
            "indentation, operand separators, comments, blank lines, literal spellings, type names, final newline and named/inline "
            "constants (full product for every 16th program in quick, for all in thorough), parsed, and compared with the program built "
            "through the construction API: no errors, same variables, classes, sizes, alignments, type names, parameter classes, constants, "
            "flags, instruction order and operand binding, same emulation result.",
            "the printer and the API twin come from one descriptor (the printer is independent of the parser); AddressSanitizer + bounds build",
            "DESIGN.md 4/C15", True),
    "C05": ("xcomp", "exploration",
            "bounded exhaustive enumeration of operand-kind, limit and flag spaces compiled for all 8 registered targets under ASan + bounds instrumentation with a watchdog; result/state contract checked after every compile",
            "Every opcode with every assignment of operand kinds (valid and invalid), sizes and prefixes; programs at and beyond every table "
            "limit (instructions, variables of each class, arrays, rule constants, code size); flag vectors per target - each compiled for "
            "sse, avx, mmx, c, c64x-c, neon, altivec and mips: must return within the watchdog without signal, abort or sanitizer report; "
            "fatal leaves no code, successful native code is in an executable region and runs, a non-fatal failure runs by emulation.",
            "sanitizer visibility of intra-object overwrites is partial; non-native targets are compiled, not executed",
            "DESIGN.md 4/C05", True),
    "C12": ("xasm", "exploration",
            "bounded exhaustive enumeration of programs x x86 flag vectors; each listing assembled with GNU as and compared instruction for instruction (objdump) with the emitted code bytes",
            "Every program of levels L1, L4, L5 (thorough: + L2, L3) compiled for sse, avx, mmx under every vector of {64,32-bit} x frame pointer x "
            "{long, short jumps} (thorough: + every feature-bit subset): the listing must assemble, and its disassembly must equal the disassembly of "
            "OrcCode bytes - mnemonics, registers, memory operands, immediates; branch targets as instruction indices.",
            "GNU as/objdump 2.40 are the reference for x86; clang 14's integrated assembler for 32-bit NEON and MIPS (byte comparison modulo the nop and single-register push/pop encodings); AArch64/PowerPC listings are outside the property's quantifier",
            "DESIGN.md 4/C12", True),
    "C11": ("xasm+xprog", "exploration",
            "bounded exhaustive enumeration of the flag-vector lattice x programs; ISA level of every distinct emitted instruction form derived from GNU as -march gating; every 64-bit subset's code run against emulation",
            "Every program of levels L1, L4, L5 (thorough: + L2, L3) compiled under every subset of each x86 target's feature bits x {64,32-bit} "
            "(thorough: x frame pointer x short jumps): every instruction form in the listing must belong to an ISA level granted by the flag vector "
            "(level = first -march=...+nosse+<level> under which GNU as accepts the form); every 64-bit subset that compiles is executed and "
            "compared with emulation over n, alignment and value tables.",
            "GNU as feature gating is the ISA reference; 32-bit code is classified, not run",
            "DESIGN.md 4/C11", True),
    "C04": ("xcgen+xcdrv", "exploration",
            "bounded exhaustive enumeration of programs x C forms x gcc optimisation levels x inputs; generated C compiled and called through its prototype, compared with emulation; emulator regeneration diff",
            "Every program of levels L1, L5 and the corpus (thorough: + L2/L3 shards) goes through orcc; the Orc-free bare body (-DDISABLE_ORC) "
            "at -O0 and -O2 and the executor-based backup body (ORC_CODE=backup) are called through the generated prototype over n, m, strides, "
            "parameter domains (int/float/int64/double) and value tables and must equal orc_executor_emulate byte for byte (NaN payloads aside); "
            "tools/generate-emulation must reproduce orc/orcemulateopcodes.{c,h} exactly.",
            "gcc 12 x86-64 is the C compiler; emulation is the oracle",
            "DESIGN.md 4/C04", True),
    "C07": ("xcgen+xcdrv+xmemcpy", "exploration",
            "bounded exhaustive enumeration of .orc sources x orcc option sets x build/run modes x inputs; every generated function called through its prototype and compared with emulation; orc_memcpy/orc_memset over all lengths x alignments",
            "Corpus files and single-opcode programs x orcc {default, eager init, eager+lazy, no-backup, compat 0.4.11, compat 0.4.15, inline} x "
            "{-DDISABLE_ORC, JIT, ORC_CODE=backup, ORC_CODE=emulate}: orcc must succeed, gcc must compile implementation and header, and each "
            "function called through its prototype (strides, int/float/int64/double parameters, accumulator out-pointers) equals emulation; "
            "orc_memcpy/orc_memset equal memcpy/memset for every length 0..1100 (thorough 4200) x offsets.",
            "gcc 12 -O2; JIT float comparison uses C18's cross-path tolerance; --test output not driven",
            "DESIGN.md 4/C07", True),
}

NOT_YET = {}


def main():
    commits = subprocess.run(["git", "-C", "/repo", "log", "--format=%h %s", "--grep=^verif hooks"], stdout=subprocess.PIPE,
                             text=True).stdout.strip().splitlines()
    props = [json.loads(l)["id"] for l in open(os.path.join(VERIF, "properties.jsonl"))]
    checks = []
    for pid in props:
        if pid not in CHECKS:
            continue
        eng, cat, tech, text, note, ref, thorough = CHECKS[pid]
        c = {
            "property_id": pid,
            "quick_cmd": "bin/check %s --tier quick" % pid,
            "evidence_file": "/verif/evidence/%s.json" % pid,
            "replay_cmd_template": "bin/check %s --replay {path}" % pid,
            "engine": eng,
            "level_claimed": {"category": cat, "text": text, "design_ref": ref},
            "level_note": note,
            "technique": tech,
        }
        if thorough:
            c["thorough_cmd"] = "bin/check %s --tier thorough" % pid
        checks.append(c)
    na = [{"property_id": p, "reason": NOT_YET.get(p, "check not built yet in this round; planned (see DESIGN.md section 4), not claimed until it runs end to end")}
          for p in props if p not in CHECKS]
    m = {
        "version": 1,
        "setup_cmd": "bin/setup.sh",
        "hooks": {
            "guard": "ORC_VERIF_HOOKS",
            "enable": "checks compile /repo/orc/*.c directly (lib/vlib.py build_lib) with -DORC_VERIF_HOOKS; the meson build never defines it",
            "baseline_off_cmd": "ninja -C /repo/_build && meson test -C /repo/_build",
            "source_commits": [c.split()[0] for c in commits],
            "add_only": True,
        },
        "engines": [
            {"name": "xcgen", "path": "engines/xcgen.c", "serves_properties": ["C04", "C07"],
             "kind_free_text": "emits .orc text of an enumerated program shard and C thunks calling each orcc-generated function through its prototype"},
            {"name": "xcdrv", "path": "engines/xcdrv.c", "serves_properties": ["C04", "C07"],
             "kind_free_text": "driver linked with the gcc-compiled orcc output: enumerated inputs through the C prototype vs orc_executor_emulate (lib/vcgen.py runs orcc and gcc)"},
            {"name": "xmemcpy", "path": "engines/xmemcpy.c", "serves_properties": ["C07"],
             "kind_free_text": "orc_memcpy/orc_memset vs memcpy/memset over every length x destination/source offset, library wrappers and Orc-free bodies"},
            {"name": "xasm", "path": "engines/xasm.c", "serves_properties": ["C11", "C12"],
             "kind_free_text": "program x flag-vector enumerator dumping listing + code bytes (C12, C11 encoding leg) or distinct instruction forms per flag vector (C11); lib/vasm.py drives GNU as/objdump, lib/vcross.py clang as ARM/MIPS assembler"},
            {"name": "xcomp", "path": "engines/xcomp.c", "serves_properties": ["C05"],
             "kind_free_text": "operand-kind / limit / flag space enumerator compiling for every registered target (ASan+bounds, supervised worker, watchdog)"},
            {"name": "xtext", "path": "engines/xtext.c", "serves_properties": ["C15"],
             "kind_free_text": "independent .orc printer over a formatting cross product + field-by-field comparison of parsed program and API twin"},
            {"name": "xrefprog", "path": "engines/xrefprog.c", "serves_properties": ["C02"],
             "kind_free_text": "program-level reference interpreter: program descriptors evaluated element by element with ref/orcref.h against orc_executor_emulate"},
            {"name": "xemu", "path": "engines/xemu.c", "serves_properties": ["C02", "C18"],
             "kind_free_text": "per-opcode operand-table enumerator on a chosen path against ref/orcref.h"},
            {"name": "xmem", "path": "engines/xmem.c", "serves_properties": ["C03"],
             "kind_free_text": "guard-page explorer: per-array mappings with PROT_NONE neighbours, exact entitlement, native + emulation paths"},
            {"name": "xabi", "path": "engines/xabi.c", "serves_properties": ["C10"],
             "kind_free_text": "assembly trampoline + enumerator over compiled programs, n and MXCSR seeds"},
            {"name": "xdet", "path": "engines/xdet.c", "serves_properties": ["C17"],
             "kind_free_text": "history replayer + probe compiler emitting code/listing digests per (probe,target); driver enumerates histories and compares with the baseline"},
            {"name": "xreg", "path": "engines/xreg.c", "serves_properties": ["C20"],
             "kind_free_text": "registration-history enumerator: fork per history from an initialised zygote, probes + differential oracle"},
            {"name": "xfault", "path": "engines/xfault.c", "serves_properties": ["C06"],
             "kind_free_text": "fault-vector explorer: interposed mkstemp/ftruncate/mmap answer from a decision vector, DFS over failing call indexes + persistent class subsets, fork per vector"},
            {"name": "xlife", "path": "engines/xlife.c", "serves_properties": ["C16"],
             "kind_free_text": "depth-first enumeration of legal lifecycle sequences from a reference state machine; fork per sequence from an initialised zygote (ASan build)"},
            {"name": "xsched", "path": "engines/xsched.c", "serves_properties": ["C08"],
             "kind_free_text": "cooperative scheduler over hooked synchronisation points + depth-first preemption-bounded explorer, fork per schedule, shared-memory trace so crashed schedules replay"},
            {"name": "xbc", "path": "engines/xbc.c", "serves_properties": ["C13"],
             "kind_free_text": "bytecode round-trip explorer over program spaces and boundary encodings (ASan+bounds build)"},
            {"name": "xparse", "path": "engines/xparse.c", "serves_properties": ["C14"],
             "kind_free_text": "exhaustive parser-input enumerator (ASan+bounds build), supervised worker with per-case crash attribution"},
            {"name": "xcpu", "path": "engines/xcpu.c", "serves_properties": ["C19"],
             "kind_free_text": "configuration-vector enumerator: fork per vector, hooks answer cpuid/xgetbv, parent judges against the model"},
            {"name": "xhist", "path": "engines/xhist.c", "serves_properties": ["C09"],
             "kind_free_text": "explicit-state BFS over histories; state rebuilt by replay in forked children of an initialised zygote"},
            {"name": "xprog", "path": "engines/xprog.c", "serves_properties": ["C01"],
             "kind_free_text": "in-process bounded exhaustive explorer: program space x targets x n x alignment x value tables, JIT vs emulation"},
        ],
        "checks": checks,
        "not_applicable": na,
        "notes": "All checks: bin/check <ID> --tier quick|thorough. Known findings: known_findings.txt. Design: DESIGN.md.",
    }
    json.dump(m, open(os.path.join(VERIF, "MANIFEST.json"), "w"), indent=1)
    print("claimed:", [c["property_id"] for c in checks], "not claimed:", [n["property_id"] for n in na])


if __name__ == "__main__":
    main()
