#!/bin/sh
# Apply a seeded patch to /repo, run the given checks (quick tier), revert.  usage: seedtest.sh <patch.diff> <ID>...
P=$1; shift
cd /repo || exit 2
if ! git diff --quiet; then echo "/repo has uncommitted changes"; exit 2; fi
git apply "$P" || { echo "patch does not apply"; exit 2; }
cd /verif
for id in "$@"; do
  timeout 1800 bin/check "$id" --tier quick > /tmp/seedtest_$id.log 2>&1; rc=$?
  echo "== $id rc=$rc"; grep -E "^(VIOLATION|KNOWN|  key=|C[0-9]+ tier)" /tmp/seedtest_$id.log | cut -c1-300 | head -8
done
git -C /repo checkout -- . 
git -C /repo status --short | head -3
