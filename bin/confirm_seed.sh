#!/bin/sh
# Confirm a seeded change in its scratch worktree: builds, suite passes, demo fails with / passes without.
# usage: confirm_seed.sh <worktree> ; prints a JSON summary
WT=$1
cd "$WT" || exit 2
b=$(timeout 900 ninja -C _b >/dev/null 2>&1; echo $?)
t=$(timeout 1500 meson test -C _b 2>&1 | grep -E "^Ok:" | awk '{print $2}')
f=$(timeout 1500 meson test -C _b 2>&1 | grep -E "^Fail:" | awk '{print $2}')
timeout 600 sh demo/run.sh >/tmp/seed_demo_with.log 2>&1; dw=$?
git stash -q -- orc tools
timeout 900 ninja -C _b >/dev/null 2>&1
timeout 600 sh demo/run.sh >/tmp/seed_demo_without.log 2>&1; dwo=$?
git stash pop -q
timeout 900 ninja -C _b >/dev/null 2>&1
echo "{\"worktree\":\"$WT\",\"build_rc\":$b,\"tests_ok\":\"$t\",\"tests_fail\":\"$f\",\"demo_with_change_rc\":$dw,\"demo_without_change_rc\":$dwo}"
