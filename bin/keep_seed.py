#!/usr/bin/env python3
"""keep_seed.py <seed-id> <property> <worktree> <confirm-json-line> <needs text> <caught-by text>"""
import json, os, shutil, sys
sid, prop, wt, confirm, needs, caught = sys.argv[1:7]
d = os.path.join("/verif/seeded", sid)
os.makedirs(d, exist_ok=True)
for f in ("patch.diff", "demo.c", "run.sh", "README.txt"):
    src = os.path.join(wt, "demo", f)
    if os.path.exists(src):
        shutil.copy(src, os.path.join(d, f))
for f in os.listdir(os.path.join(wt, "demo")):
    if f.endswith((".c", ".sh", ".py", ".orc", ".h")) and not os.path.exists(os.path.join(d, f)):
        shutil.copy(os.path.join(wt, "demo", f), os.path.join(d, f))
meta = {"seed": sid, "breaks_property": prop, "needs_to_manifest": needs,
        "confirmed_in_scratch_worktree": json.loads(confirm),
        "what_was_run": ["ninja + meson test in the scratch worktree with the change (33 pass)", "demo/run.sh with the change (non-zero)",
                         "demo/run.sh after git stash of the change (zero)", "bin/seedtest.sh patch.diff <checks> against /repo (applied, checked, reverted)"],
        "caught_by": caught, "origin": "independent sub-agent given only the property text and a scratch worktree"}
json.dump(meta, open(os.path.join(d, "meta.json"), "w"), indent=1)
print("kept", d)
