#!/bin/sh
# Run quick checks against a scratch worktree of /repo's HEAD with a seeded patch applied (VERIF_REPO), leaving /repo
# itself untouched.  usage: seedtest_wt.sh <patch.diff> <ID>...
P=$1; shift
APP=${SEEDAPP:-/tmp/verif_seedapp}
if [ ! -d $APP ]; then git -C /repo worktree add -q --detach $APP HEAD || exit 2; fi
git -C $APP checkout -q -- . && git -C $APP checkout -q --detach "$(git -C /repo rev-parse HEAD)" || exit 2
git -C $APP apply "$P" || { echo "patch does not apply"; exit 2; }
cd /verif
for id in "$@"; do
  VERIF_REPO=$APP timeout 1800 bin/check "$id" --tier quick > /tmp/seedtest_$id.log 2>&1; rc=$?
  echo "== $id rc=$rc"; grep -E "^(VIOLATION|  key=|C[0-9]+ tier)" /tmp/seedtest_$id.log | cut -c1-300 | head -8
done
git -C $APP checkout -q -- .
