#!/usr/bin/env python3
"""Regenerates the seed table of DESIGN.md section 7 from seeded/*/meta.json (prints it)."""
import glob, json, os, re
rows = []
for m in glob.glob("/verif/seeded/*/meta.json"):
    j = json.load(open(m))
    sid = j["seed"]
    mm = re.match(r"C(\d+)(?:-r(\d))?", sid)
    rows.append((int(mm.group(1)), int(mm.group(2) or 1), sid, j["needs_to_manifest"], j["caught_by"]))
rows.sort()
esc = lambda s: s.replace("|", "\\|").replace("\n", " ")
print("| seed | what it needs to manifest | reported by |\n|---|---|---|")
for _, _, sid, needs, caught in rows:
    print("| %s | %s | %s |" % (sid, esc(needs), esc(caught)))
