/* xasm: S-prog x S-conf enumerator over the x86 back ends' two renderings of
 * one program: the textual listing and the code bytes.
 *
 *   --mode forms  (C11)  every program x every flag vector of a target's
 *                        feature lattice: the listing is reduced to the set of
 *                        distinct instruction forms (mnemonic + operand
 *                        classes) per (target, flag vector); the checker
 *                        derives each form's ISA level from GNU as.
 *   --mode dump   (C12)  every program x flag vector: listing and code bytes
 *                        are written as two assembler files per vector, one
 *                        label per program, for as + objdump comparison.
 */
#include "pgen.h"

typedef struct {
  const char *name;
  unsigned feat[8];
  int nfeat;
} TSpec;

#define B64 (1u << 9)
#define BFP (1u << 7)
#define BSJ (1u << 8)

static const TSpec tspecs[] = {
  { "sse", { ORC_TARGET_SSE_SSE2, ORC_TARGET_SSE_SSE3, ORC_TARGET_SSE_SSSE3, ORC_TARGET_SSE_SSE4_1, ORC_TARGET_SSE_SSE4_2 }, 5 },
  { "avx", { ORC_TARGET_AVX_AVX, ORC_TARGET_AVX_AVX2 }, 2 },
  { "mmx", { ORC_TARGET_MMX_MMX, ORC_TARGET_MMX_MMXEXT, ORC_TARGET_MMX_3DNOW, ORC_TARGET_MMX_SSSE3, ORC_TARGET_MMX_SSE4_1, ORC_TARGET_MMX_SSE4_2 }, 6 },
  /* non-x86 targets (mode cross): explicit flag vectors, listed in feat[] */
  { "neon", { ORC_TARGET_NEON_NEON }, 1 },
  { "mips", { 2 /* DSP2 */, 3 /* DSP2 + frame pointer */ }, 2 },
};
#define NTSPECS ((int)(sizeof(tspecs)/sizeof(tspecs[0])))

typedef struct {
  int shard, nshards;
  const char *mode, *levels, *targets, *vectors, *corpus, *outdir, *only;
  int classes;
  long only_vec;
} Opt;
static Opt opt;

typedef struct { const TSpec *ts; OrcTarget *target; unsigned flags; } Vec;
static Vec vecs[4096];
static int nvecs;

static long st_compiles, st_ok, st_fail, st_lines, st_forms, st_bytes, st_programs;

/* ---------------------------------------------------------------- vectors */

static void build_vectors (void)
{
  char buf[128], *s, *save;
  strncpy (buf, opt.targets, sizeof (buf) - 1);
  buf[sizeof (buf) - 1] = 0;
  for (s = strtok_r (buf, ",", &save); s; s = strtok_r (NULL, ",", &save)) {
    const TSpec *ts = NULL;
    OrcTarget *t = orc_target_get_by_name (s);
    unsigned def, allfeat = 0, m, e;
    int i;
    for (i = 0; i < NTSPECS; i++) if (!strcmp (tspecs[i].name, s)) ts = &tspecs[i];
    if (!ts || !t) continue;
    if (!strcmp (opt.vectors, "cross")) {
      for (i = 0; i < ts->nfeat; i++) { vecs[nvecs].ts = ts; vecs[nvecs].target = t; vecs[nvecs].flags = ts->feat[i]; nvecs++; }
      continue;
    }
    def = orc_target_get_default_flags (t);
    for (i = 0; i < ts->nfeat; i++) allfeat |= ts->feat[i];
    if (!strcmp (opt.vectors, "minimal")) {
      /* the flag vectors below the three-byte opcode maps, 64-bit: sse {SSE2; SSE2+SSE3; SSE2+SSE3+SSSE3}, mmx {MMX+MMXEXT;
       * MMX+MMXEXT+SSSE3} */
      if (!strcmp (s, "sse")) {
        unsigned fv[3] = { ORC_TARGET_SSE_SSE2, ORC_TARGET_SSE_SSE2 | ORC_TARGET_SSE_SSE3, ORC_TARGET_SSE_SSE2 | ORC_TARGET_SSE_SSE3 | ORC_TARGET_SSE_SSSE3 };
        for (i = 0; i < 3; i++) { vecs[nvecs].ts = ts; vecs[nvecs].target = t; vecs[nvecs].flags = fv[i] | B64 | (def & BFP); nvecs++; }
      } else if (!strcmp (s, "mmx")) {
        unsigned fv[2] = { ORC_TARGET_MMX_MMX | ORC_TARGET_MMX_MMXEXT, ORC_TARGET_MMX_MMX | ORC_TARGET_MMX_MMXEXT | ORC_TARGET_MMX_SSSE3 };
        for (i = 0; i < 2; i++) { vecs[nvecs].ts = ts; vecs[nvecs].target = t; vecs[nvecs].flags = fv[i] | B64 | (def & BFP); nvecs++; }
      }
      continue;
    }
    if (!strcmp (opt.vectors, "env")) {
      /* host feature set x {64,32} x frame pointer x short jumps */
      for (e = 0; e < 8; e++) {
        unsigned f = (def & allfeat) | ((e & 1) ? 0 : B64) | ((e & 2) ? BFP : 0) | ((e & 4) ? BSJ : 0);
        vecs[nvecs].ts = ts; vecs[nvecs].target = t; vecs[nvecs].flags = f; nvecs++;
      }
      continue;
    }
    for (m = 0; m < (1u << ts->nfeat); m++) {
      unsigned f = 0;
      for (i = 0; i < ts->nfeat; i++) if (m & (1u << i)) f |= ts->feat[i];
      if (!strcmp (opt.vectors, "lattice")) {
        for (e = 0; e < 2; e++) {
          vecs[nvecs].ts = ts; vecs[nvecs].target = t; vecs[nvecs].flags = f | (e ? 0 : B64) | (def & BFP); nvecs++;
        }
      } else {			/* full */
        for (e = 0; e < 8; e++) {
          vecs[nvecs].ts = ts; vecs[nvecs].target = t;
          vecs[nvecs].flags = f | ((e & 1) ? 0 : B64) | ((e & 2) ? BFP : 0) | ((e & 4) ? BSJ : 0); nvecs++;
        }
      }
    }
  }
}

/* ------------------------------------------------------------------ forms */

#define FH_SIZE (1 << 16)
static uint64_t fh[FH_SIZE];

static int form_seen (uint64_t h)
{
  unsigned i = (unsigned) (h >> 20) & (FH_SIZE - 1);
  if (!h) h = 1;
  while (fh[i]) {
    if (fh[i] == h) return 1;
    i = (i + 1) & (FH_SIZE - 1);
  }
  fh[i] = h;
  return 0;
}

/* reduce one instruction line to mnemonic + operand classes */
static int reduce_line (const char *l, const char *e, int is64, char *out, size_t cap)
{
  size_t o = 0;
  const char *p = l;
  while (p < e && (*p == ' ' || *p == '\t')) p++;
  if (p >= e || *p == '#' || *p == '.') return 0;
  {
    const char *q = p;
    while (q < e && *q != ' ' && *q != '\t') q++;
    if (q > p && q[-1] == ':') return 0;	/* label */
    while (p < q && o < cap - 2) out[o++] = *p++;
  }
  while (p < e && (*p == ' ' || *p == '\t')) p++;
  if (p < e) out[o++] = ' ';
  while (p < e && o < cap - 24) {
    if (*p == '$') {		/* immediate: keep small literal class */
      const char *q = p + 1;
      while (q < e && *q != ',' && *q != ' ') q++;
      o += snprintf (out + o, cap - o, "$1");
      p = q;
    } else if (*p == '%') {
      const char *q = p + 1;
      char r[16];
      size_t n = 0;
      while (q < e && ((*q >= 'a' && *q <= 'z') || (*q >= '0' && *q <= '9')) && n < 15) r[n++] = *q++;
      r[n] = 0;
      if (!strncmp (r, "xmm", 3)) o += snprintf (out + o, cap - o, "%%xmm1");
      else if (!strncmp (r, "ymm", 3)) o += snprintf (out + o, cap - o, "%%ymm1");
      else if (!strncmp (r, "mm", 2)) o += snprintf (out + o, cap - o, "%%mm1");
      else o += snprintf (out + o, cap - o, "%%%s", r);
      p = q;
    } else if ((*p >= '0' && *p <= '9') || *p == '-' || *p == '(') {
      /* displacement(base[,index,scale]) or a local label reference */
      const char *q = p;
      while (q < e && *q != '(' && *q != ',' && *q != ' ') q++;
      if (q < e && *q == '(') {
        while (q < e && *q != ')') q++;
        if (q < e) q++;
        o += snprintf (out + o, cap - o, is64 ? "(%%rax)" : "(%%eax)");
      } else {
        o += snprintf (out + o, cap - o, "9f");
      }
      p = q;
    } else {
      out[o++] = *p++;
    }
  }
  while (o > 0 && (out[o - 1] == ' ' || out[o - 1] == '\t')) o--;
  out[o] = 0;
  return o > 0;
}

static void do_forms (OrcProgram * p, const Vec * v, const char *desc)
{
  const char *a = orc_program_get_asm_code (p);
  const char *l;
  char form[256];
  if (!a) return;
  for (l = a; *l;) {
    const char *e = strchr (l, '\n');
    if (!e) e = l + strlen (l);
    st_lines++;
    if (reduce_line (l, e, (v->flags & B64) != 0, form, sizeof (form))) {
      uint64_t h = v_hash64 (form, strlen (form), (uint64_t) v->flags * 1315423911u + (uint64_t) (v->ts - tspecs));
      if (!form_seen (h)) {
        st_forms++;
        v_out ("{\"t\":\"form\",\"target\":\"%s\",\"flags\":%u,\"form\":\"%s\",\"prog\":\"%s\"}", v->ts->name, v->flags, v_esc (form), v_esc (desc));
      }
    }
    l = *e ? e + 1 : e;
  }
}

/* ------------------------------------------------------------------- dump */

static FILE *f_lst, *f_bin, *f_idx;

static void do_dump (OrcProgram * p, const Vec * v, const char *desc)
{
  const char *a = orc_program_get_asm_code (p);
  OrcCode *c = p->orccode;
  const char *l;
  int i;
  if (!a || !c) return;
  fprintf (f_lst, ".text\n");
  for (l = a; *l;) {
    const char *e = strchr (l, '\n');
    if (!e) e = l + strlen (l);
    if (*l != '#') { fwrite (l, 1, e - l, f_lst); fputc ('\n', f_lst); st_lines++; }
    l = *e ? e + 1 : e;
  }
  fprintf (f_lst, "  ud2\n");	/* keeps a failed decode from running into the next function */
  fprintf (f_bin, ".text\n.p2align 4\n%s:\n", p->name);
  for (i = 0; i < c->code_size; i++) fprintf (f_bin, "%s0x%02x%s", (i % 16) ? "," : ".byte ", c->code[i], (i % 16 == 15 || i == c->code_size - 1) ? "\n" : "");
  fprintf (f_bin, "  ud2\n");
  st_bytes += c->code_size;
  fprintf (f_idx, "%s\t%s\n", p->name, desc);
}

/* cross mode: listing and code bytes of one program, for a cross assembler */
static void do_cross (OrcProgram * p, const Vec * v, const char *desc)
{
  const char *a = orc_program_get_asm_code (p);
  OrcCode *c = p->orccode;
  int i;
  (void) v;
  if (!a || !c) return;
  fprintf (f_lst, "@@ %s\n%s", p->name, a);
  if (a[0] && a[strlen (a) - 1] != '\n') fputc ('\n', f_lst);
  fprintf (f_idx, "%s\t", p->name);
  for (i = 0; i < c->code_size; i++) fprintf (f_idx, "%02x", c->code[i]);
  fprintf (f_idx, "\t%s\n", desc);
  st_bytes += c->code_size;
}

/* ------------------------------------------------------------ enumeration */

static long g_idx;
static const Vec *g_vec;

static void handle (OrcProgram * p, const char *desc)
{
  OrcCompileResult res;
  st_compiles++;
  orc_program_reset (p);
  res = orc_program_compile_full (p, g_vec->target, g_vec->flags);
  if (!ORC_COMPILE_RESULT_IS_SUCCESSFUL (res)) { st_fail++; return; }
  st_ok++;
  if (!strcmp (opt.mode, "forms")) do_forms (p, g_vec, desc);
  else if (!strcmp (opt.mode, "cross")) do_cross (p, g_vec, desc);
  else do_dump (p, g_vec, desc);
}

static void on_prog (VProg * vp, void *user)
{
  long idx = g_idx++;
  OrcProgram *p;
  (void) user;
  if ((idx % opt.nshards) != opt.shard) return;
  if (opt.only && strcmp (opt.only, vp->name)) return;
  p = vprog_build (vp);
  handle (p, vprog_oneline (vp));
  orc_program_free (p);
}

static char *read_file (const char *fn)
{
  FILE *f = fopen (fn, "rb");
  long n;
  char *b;
  if (!f) return NULL;
  fseek (f, 0, SEEK_END);
  n = ftell (f);
  fseek (f, 0, SEEK_SET);
  b = malloc (n + 1);
  if (fread (b, 1, n, f) != (size_t) n) { fclose (f); free (b); return NULL; }
  b[n] = 0;
  fclose (f);
  return b;
}

static void enumerate (void)
{
  g_idx = 0;
  if (strstr (opt.levels, "L1")) pgen_L1 (on_prog, NULL, opt.classes);
  if (strstr (opt.levels, "L2")) pgen_L2 (on_prog, NULL, opt.classes);
  if (strstr (opt.levels, "L3")) pgen_L3 (on_prog, NULL, opt.classes & PG_FLOAT ? PG_FLOAT : PG_INT);
  if (strstr (opt.levels, "L5")) pgen_L5 (on_prog, NULL);
  if (strstr (opt.levels, "LB")) pgen_LB (on_prog, NULL);
  if (strstr (opt.levels, "L6")) pgen_L6 (on_prog, NULL, opt.classes);
  if (strstr (opt.levels, "L4") && opt.corpus) {
    char buf[2048], *fn, *save;
    strncpy (buf, opt.corpus, sizeof (buf) - 1);
    buf[sizeof (buf) - 1] = 0;
    for (fn = strtok_r (buf, ":", &save); fn; fn = strtok_r (NULL, ":", &save)) {
      char *code = read_file (fn);
      OrcProgram **progs = NULL;
      int n, i;
      if (!code) continue;
      n = orc_parse (code, &progs);
      for (i = 0; i < n; i++) {
        long idx = g_idx++;
        char nm[64], desc[4200];
        if ((idx % opt.nshards) != opt.shard) continue;
        snprintf (desc, sizeof (desc), "%s", oprog_oneline (progs[i]));
        snprintf (nm, sizeof (nm), "vL4_%ld", idx);
        orc_program_set_name (progs[i], nm);
        if (opt.only && strcmp (opt.only, nm)) continue;
        handle (progs[i], desc);
      }
      free (code);
    }
  }
}

int main (int argc, char **argv)
{
  int vi;
  const char *cls;
  opt.shard = v_argi (argc, argv, "--shard", 0);
  opt.nshards = v_argi (argc, argv, "--nshards", 1);
  opt.mode = v_arg (argc, argv, "--mode", "forms");
  opt.levels = v_arg (argc, argv, "--levels", "L1");
  opt.targets = v_arg (argc, argv, "--targets", "sse,avx,mmx");
  opt.vectors = v_arg (argc, argv, "--vectors", "lattice");
  opt.corpus = v_arg (argc, argv, "--corpus", NULL);
  opt.outdir = v_arg (argc, argv, "--outdir", ".");
  opt.only = v_arg (argc, argv, "--only", NULL);
  opt.only_vec = v_argi (argc, argv, "--only-flags", -1);
  cls = v_arg (argc, argv, "--classes", "both");
  opt.classes = !strcmp (cls, "float") ? PG_FLOAT : !strcmp (cls, "int") ? PG_INT : (PG_INT | PG_FLOAT);
  orc_init ();
  v_ops_init ();
  build_vectors ();
  for (vi = 0; vi < nvecs; vi++) {
    char fn[1024];
    g_vec = &vecs[vi];
    if (opt.only_vec >= 0 && (long) g_vec->flags != opt.only_vec) continue;
    if (!strcmp (opt.mode, "cross")) {
      snprintf (fn, sizeof (fn), "%s/%s_%x_%d.lst", opt.outdir, g_vec->ts->name, g_vec->flags, opt.shard);
      f_lst = fopen (fn, "w");
      snprintf (fn, sizeof (fn), "%s/%s_%x_%d.idx", opt.outdir, g_vec->ts->name, g_vec->flags, opt.shard);
      f_idx = fopen (fn, "w");
      if (!f_lst || !f_idx) { perror (fn); return 2; }
      fprintf (f_lst, "@@preamble\n%s\n", orc_target_get_asm_preamble (g_vec->ts->name));
    }
    if (!strcmp (opt.mode, "dump")) {
      snprintf (fn, sizeof (fn), "%s/%s_%x_%d.lst.s", opt.outdir, g_vec->ts->name, g_vec->flags, opt.shard);
      f_lst = fopen (fn, "w");
      snprintf (fn, sizeof (fn), "%s/%s_%x_%d.bin.s", opt.outdir, g_vec->ts->name, g_vec->flags, opt.shard);
      f_bin = fopen (fn, "w");
      snprintf (fn, sizeof (fn), "%s/%s_%x_%d.idx", opt.outdir, g_vec->ts->name, g_vec->flags, opt.shard);
      f_idx = fopen (fn, "w");
      if (!f_lst || !f_bin || !f_idx) { perror (fn); return 2; }
    }
    enumerate ();
    if (!strcmp (opt.mode, "dump")) { fclose (f_lst); fclose (f_bin); fclose (f_idx); }
    if (!strcmp (opt.mode, "cross")) { fclose (f_lst); fclose (f_idx); }
  }
  st_programs = g_idx;
  v_out ("{\"t\":\"stat\",\"compiles\":%ld,\"compiled_ok\":%ld,\"not_compiled\":%ld,\"listing_lines\":%ld,\"forms_emitted\":%ld,\"code_bytes\":%ld}",
      st_compiles, st_ok, st_fail, st_lines, st_forms, st_bytes);
  v_out ("{\"t\":\"max\",\"space_size\":%ld,\"flag_vectors\":%d}", st_programs, nvecs);
  return 0;
}
