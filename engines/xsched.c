/* xsched: stateless model checking of the real library under a cooperative
 * scheduler (C08).  Threads are real pthreads; exactly one runs at a time;
 * every ORC_VERIF_POINT in the library (mutex lock/unlock, once-flag loads and
 * stores, init flag, points inside the code-memory critical sections) is a
 * choice point.  Mutexes are modelled (a thread requesting a held mutex is not
 * enabled).  Exploration: iterative context bounding - replay a recorded
 * choice prefix (divergence is a hard error), then run non-preemptively;
 * alternatives are enumerated depth-first while the number of preemptions
 * stays within the bound.  Every schedule is a fresh forked process.
 *
 * Modes:
 *   --scenario S --threads T --bound B [--part i/k]   explore
 *   --scenario S --threads T --replay "c0 c1 c2 ..."   run one schedule, print outcome
 *   --free-run N   (no scheduler; used by the TSan build) */
#include "vcommon.h"
#include <pthread.h>
#include <orc/orcverif.h>
#include <orc/orconce.h>

#define MAXT 16
#define MAXCHOICE 4000

/* ------------------------------------------------------------ scheduler */

enum { M_NONE = -1, M_GLOBAL = 0, M_ONCE = 1 };

typedef struct {
  pthread_t th;
  int alive;			/* started and not finished */
  int want;			/* mutex it is waiting to acquire at its current point */
  int pt;
  pthread_cond_t cv;
} Th;

static Th th[MAXT];
static int nth;
static pthread_mutex_t S = PTHREAD_MUTEX_INITIALIZER;
static int cur = -1;
static int owner[2] = { -1, -1 };
static int sched_active;
static __thread int my_id = -1;

static char obs[400];
static int contention;

/* recorded trace */
typedef struct { short nen; short cur_enabled; short chosen; short thread; short pt; } Choice;
typedef struct {
  volatile int ntrace, bad, diverged, deadlocked, done, contention;
  Choice tr[MAXCHOICE];
  char outcome[1400];
  char obs[420];
} Shared;
static Shared *shm;		/* MAP_SHARED: survives the death of the child */
static Choice local_trace[MAXCHOICE];
#define trace (shm ? shm->tr : local_trace)
static int ntrace;
static const int *prefix;
static int nprefix;
static int diverged;
static int deadlocked;

static int enabled (int t)
{
  if (!th[t].alive) return 0;
  if (th[t].want != M_NONE && owner[th[t].want] != -1 && owner[th[t].want] != t) return 0;
  return 1;
}

/* canonical order: the running thread first if enabled, then ascending ids */
static int enabled_list (int me, int *out)
{
  int n = 0, t;
  if (me >= 0 && enabled (me)) out[n++] = me;
  for (t = 0; t < nth; t++) if (t != me && enabled (t)) out[n++] = t;
  return n;
}

static void finish_report (const char *outcome, int bad);

/* called with S held; returns the thread that runs next (-1 = nobody) */
static int pick_next (int me, int pt)
{
  int en[MAXT], n = enabled_list (me, en), c = 0, t;
  for (t = 0; t < nth; t++) if (th[t].alive && !enabled (t)) { contention++; break; }
  if (n == 0) return -1;
  if (n > 1 || 1) {
    if (ntrace < nprefix) {
      c = prefix[ntrace];
      if (c >= n) { diverged = 1; c = 0; }
    } else c = 0;
    if (ntrace < MAXCHOICE) {
      trace[ntrace].nen = (short) n;
      trace[ntrace].cur_enabled = (short) (me >= 0 && enabled (me));
      trace[ntrace].chosen = (short) c;
      trace[ntrace].thread = (short) en[c];
      trace[ntrace].pt = (short) pt;
      ntrace++;
      if (shm) shm->ntrace = ntrace;
    }
  }
  return en[c];
}

static void grant (int t)
{
  if (th[t].want != M_NONE) { owner[th[t].want] = t; th[t].want = M_NONE; }
  cur = t;
  pthread_cond_signal (&th[t].cv);
}

static void sched_point (int pt)
{
  int me = my_id, next;
  if (!sched_active || me < 0) return;
  pthread_mutex_lock (&S);
  th[me].pt = pt;
  if (pt == ORC_VERIF_PT_INIT_WRITE && strlen (obs) < sizeof (obs) - 24) sprintf (obs + strlen (obs), "init_by=%d ", me);
  th[me].want = pt == ORC_VERIF_PT_GLOBAL_LOCK ? M_GLOBAL : pt == ORC_VERIF_PT_ONCE_LOCK ? M_ONCE : M_NONE;
  if (pt == ORC_VERIF_PT_GLOBAL_UNLOCK && owner[M_GLOBAL] == me) owner[M_GLOBAL] = -1;
  if (pt == ORC_VERIF_PT_ONCE_UNLOCK && owner[M_ONCE] == me) owner[M_ONCE] = -1;
  next = pick_next (me, pt);
  if (next < 0) {
    deadlocked = 1;
    pthread_mutex_unlock (&S);
    finish_report ("DEADLOCK: no enabled thread", 1);
    _exit (0);
  }
  grant (next);
  while (cur != me) pthread_cond_wait (&th[me].cv, &S);
  pthread_mutex_unlock (&S);
}

typedef void (*Body) (int id);
static Body g_body;

static void *thread_main (void *arg)
{
  int me = (int) (long) arg, next;
  my_id = me;
  /* wait to be scheduled for the first time */
  pthread_mutex_lock (&S);
  while (cur != me) pthread_cond_wait (&th[me].cv, &S);
  pthread_mutex_unlock (&S);
  g_body (me);
  pthread_mutex_lock (&S);
  th[me].alive = 0;
  next = pick_next (-1, 0);
  if (next >= 0) grant (next);
  else {
    int t, any = 0;
    for (t = 0; t < nth; t++) if (th[t].alive) any = 1;
    if (any) { deadlocked = 1; pthread_mutex_unlock (&S); finish_report ("DEADLOCK: threads blocked forever", 1); _exit (0); }
    cur = -2;			/* all done */
  }
  pthread_mutex_unlock (&S);
  return NULL;
}

static void run_threads (int n, Body body)
{
  int t, first;
  nth = n;
  g_body = body;
  for (t = 0; t < n; t++) { th[t].alive = 1; th[t].want = M_NONE; pthread_cond_init (&th[t].cv, NULL); }
  orc_verif_sched_hook = sched_point;
  sched_active = 1;
  pthread_mutex_lock (&S);
  for (t = 0; t < n; t++) pthread_create (&th[t].th, NULL, thread_main, (void *) (long) t);
  first = pick_next (-1, 0);
  grant (first);
  pthread_mutex_unlock (&S);
  for (t = 0; t < n; t++) pthread_join (th[t].th, NULL);
  sched_active = 0;
  orc_verif_sched_hook = NULL;
}

/* free-running variant (TSan pass): same bodies, real concurrency */
static void *free_main (void *arg) { g_body ((int) (long) arg); return NULL; }
static void run_free (int n, Body body)
{
  pthread_t t[64];
  int i;
  g_body = body;
  for (i = 0; i < n; i++) pthread_create (&t[i], NULL, free_main, (void *) (long) i);
  for (i = 0; i < n; i++) pthread_join (t[i], NULL);
}

/* ------------------------------------------------------------- scenarios */

static char outcome[1200];
static int bad;
static void fail (const char *fmt, ...)
{
  va_list ap;
  size_t o = strlen (outcome);
  if (o > sizeof (outcome) - 200) return;
  bad = 1;
  va_start (ap, fmt);
  vsnprintf (outcome + o, sizeof (outcome) - o, fmt, ap);
  va_end (ap);
  strcat (outcome, "; ");
}

/* walker snapshot + invariants (as C09) */
typedef struct { int region; unsigned char *w, *x; int rsize, off, size, used; } Chunk;
static Chunk chunks[1024];
static int nchunks;
static void walk_cb (void *u, int region, void *w, void *x, int rsize, int off, int size, int used)
{
  (void) u;
  if (nchunks < 1024) { Chunk *c = &chunks[nchunks++]; c->region = region; c->w = w; c->x = x; c->rsize = rsize; c->off = off; c->size = size; c->used = used; }
}
static void check_codemem (int expect_used)
{
  int i, used = 0, regions = 0;
  nchunks = 0;
  orc_verif_codemem_walk (walk_cb, NULL);
  for (i = 0; i < nchunks; i++) {
    Chunk *c = &chunks[i];
    int first = (i == 0 || chunks[i - 1].region != c->region), last = (i == nchunks - 1 || chunks[i + 1].region != c->region);
    if (c->region + 1 > regions) regions = c->region + 1;
    used += c->used != 0;
    if (c->size <= 0) fail ("chunk of size %d", c->size);
    if (first && c->off != 0) fail ("region %d starts at %d", c->region, c->off);
    if (!first && chunks[i - 1].off + chunks[i - 1].size != c->off) fail ("region %d chunks do not tile at %d", c->region, c->off);
    if (last && c->off + c->size != c->rsize) fail ("region %d chunks end at %d of %d", c->region, c->off + c->size, c->rsize);
    if (!first && !chunks[i - 1].used && !c->used) fail ("region %d adjacent free chunks at %d", c->region, c->off);
  }
  if (expect_used >= 0 && used != expect_used) fail ("%d used chunks, expected %d", used, expect_used);
  if (regions > 3) fail ("%d regions for a working set of a few KiB", regions);
}

/* --- S1: concurrent orc_init --- */
static int s1_seen[MAXT];
static void body_init (int id)
{
  static const char *names[] = { "c", "c64x-c", "mmx", "sse", "avx", "altivec", "neon", "mips" };
  int i, ok = 1;
  orc_init ();
  for (i = 0; i < 8; i++) if (!orc_target_get_by_name (names[i])) ok = 0;
  if (!orc_opcode_find_by_name ("addw") || !orc_opcode_find_by_name ("convwf")) ok = 0;
  if (!orc_target_get_default ()) ok = 0;
  else {
    /* the registries must be complete for whoever returns from orc_init */
    OrcTarget *t = orc_target_get_by_name ("sse");
    OrcStaticOpcode *o = orc_opcode_find_by_name ("addw");
    if (!t || !o || !orc_target_get_rule (t, o, orc_target_get_default_flags (t))) ok = 0;
    t = orc_target_get_by_name ("avx");
    if (!t || !o || !orc_target_get_rule (t, o, orc_target_get_default_flags (t))) ok = 0;
  }
  s1_seen[id] = ok;
}
static void post_init (int n)
{
  int i;
  OrcTarget *t;
  for (i = 0; i < n; i++) if (!s1_seen[i]) fail ("thread %d returned from orc_init() and found incomplete registries", i);
  t = orc_target_get_by_name ("sse");
  if (t) snprintf (outcome + strlen (outcome), 64, "sse_rule_sets=%d ", t->n_rule_sets);
  t = orc_target_get_by_name ("avx");
  if (t) snprintf (outcome + strlen (outcome), 64, "avx_rule_sets=%d ", t->n_rule_sets);
}

/* --- programs --- */
static OrcProgram *mk_prog (int k)
{
  OrcProgram *p = orc_program_new_dss (2, 2, 2);
  char nm[32];
  sprintf (nm, "sched_p%d", k);
  orc_program_set_name (p, nm);
  if (k % 2 == 0) orc_program_append_str (p, "addw", "d1", "s1", "s2");
  else {
    orc_program_add_temporary (p, 2, "t1");
    orc_program_append_str (p, "mullw", "t1", "s1", "s2");
    orc_program_append_str (p, "subw", "d1", "t1", "s2");
  }
  return p;
}
static int run_check (OrcCode * code, int k)
{
  short s1[40], s2[40], d[40], e[40];
  OrcExecutor ex;
  int i, n = 37;
  for (i = 0; i < 40; i++) { s1[i] = (short) (i * 77 + k); s2[i] = (short) (i * 13 - 5); d[i] = e[i] = 0x5a5a; }
  for (i = 0; i < n; i++) e[i] = (k % 2 == 0) ? (short) (s1[i] + s2[i]) : (short) ((short) (s1[i] * s2[i]) - s2[i]);
  memset (&ex, 0, sizeof (ex));
  ex.arrays[ORC_VAR_A2] = code;
  ex.n = n;
  ex.arrays[ORC_VAR_D1] = d; ex.arrays[ORC_VAR_S1] = s1; ex.arrays[ORC_VAR_S2] = s2;
  orc_executor_run (&ex);
  return memcmp (d, e, sizeof (d)) == 0;
}

/* --- S3: concurrent compile / take_code / run / free, plus raw allocations of forced sizes --- */
static int s3_ok[MAXT];
static void body_codemem (int id)
{
  OrcProgram *p = mk_prog (id);
  OrcCode *c, *raw;
  int ok = 1, i;
  static const int rawsize[] = { 4000, 32752, 17, 65520 };
  if (!ORC_COMPILE_RESULT_IS_SUCCESSFUL (orc_program_compile (p))) ok = 0;
  c = orc_program_take_code (p);
  orc_program_free (p);
  /* a request no region can hold fails gracefully (and must give every lock back: the other threads go on) */
  if (id == 0) {
    OrcCode *big = orc_code_new ();
    orc_code_allocate_codemem (big, 100000);
    if (big->chunk) ok = 0;
    orc_code_free (big);
  }
  raw = orc_code_new ();
  orc_code_allocate_codemem (raw, rawsize[id % 4]);
  if (!raw->chunk) ok = 0;
  else for (i = 0; i < raw->code_size; i += 97) raw->code[i] = (unsigned char) (id * 31 + i);
  if (c && !run_check (c, id)) ok = 0;
  if (raw->chunk) for (i = 0; i < raw->code_size; i += 97) if (raw->code[i] != (unsigned char) (id * 31 + i)) ok = 0;
  if (sched_active && raw->chunk && strlen (obs) < sizeof (obs) - 40) sprintf (obs + strlen (obs), "t%d@%ld ", id, (long) ((size_t) raw->exec & 0xffff));
  if (c) orc_code_free (c);
  orc_code_free (raw);
  s3_ok[id] = ok;
}
static void post_codemem (int n)
{
  int i;
  for (i = 0; i < n; i++) if (!s3_ok[i]) fail ("thread %d: compile/run/raw-bytes check failed", i);
  check_codemem (0);
}

/* --- S2: once-guarded lazy initialisation, as orcc generates it --- */
static OrcOnce once_a = ORC_ONCE_INIT, once_b = ORC_ONCE_INIT;
static int once_inits[2];
static OrcCode *once_seen[MAXT][2];
static int s2_ok[MAXT];
/* noinline: inlined into body_once, clang folds "*(which ? &once_b : &once_a)" into loads of BOTH objects' value fields and a
 * select, and ThreadSanitizer then reports the speculative load of the other object's value as a race with its initialiser */
static __attribute__ ((noinline)) OrcCode *wrapper (OrcOnce * once, int which)
{
  OrcCode *c;
  void *value;
  if (!orc_once_enter (once, &value)) {
    OrcProgram *p = mk_prog (which);
    orc_program_compile (p);
    c = orc_program_take_code (p);
    orc_program_free (p);
    once_inits[which]++;
    if (sched_active && strlen (obs) < sizeof (obs) - 24) sprintf (obs + strlen (obs), "once%d_by=%d ", which, my_id);
    orc_once_leave (once, c);
  } else c = value;
  return c;
}
static void body_once (int id)
{
  int ok = 1, w;
  for (w = 0; w < 2; w++) {
    int which = (id + w) % 2;
    OrcCode *c = wrapper (which ? &once_b : &once_a, which);
    once_seen[id][which] = c;
    if (!c || !c->exec) ok = 0;
    else if (!run_check (c, which)) ok = 0;
  }
  s2_ok[id] = ok;
}
static void post_once (int n)
{
  int i, w;
  for (w = 0; w < 2; w++) {
    if (once_inits[w] != 1) fail ("wrapper %d initialised %d times", w, once_inits[w]);
    for (i = 1; i < n; i++) if (once_seen[i][w] != once_seen[0][w]) fail ("threads saw different code objects for wrapper %d", w);
  }
  for (i = 0; i < n; i++) if (!s2_ok[i]) fail ("thread %d: wrapper returned missing/uninitialised code or a wrong result", i);
  check_codemem (2);
}

/* --- S4: one compiled function run from several threads while another thread compiles and frees --- */
static OrcCode *shared_code;
static int s4_ok[MAXT];
static void body_run (int id)
{
  int ok = 1, r;
  if (id == 0) {
    for (r = 0; r < 2; r++) {
      OrcProgram *p = mk_prog (1);
      OrcCode *c;
      orc_program_compile (p);
      c = orc_program_take_code (p);
      orc_program_free (p);
      if (!c || !run_check (c, 1)) ok = 0;
      if (!run_check (shared_code, 0)) ok = 0;
      if (c) orc_code_free (c);
    }
  } else {
    for (r = 0; r < 3; r++) if (!run_check (shared_code, 0)) ok = 0;
  }
  s4_ok[id] = ok;
}
static void post_run (int n)
{
  int i;
  for (i = 0; i < n; i++) if (!s4_ok[i]) fail ("thread %d: wrong result", i);
  check_codemem (1);
}

/* --- S5: several threads emulate (and run) one shared code object on their own data --- */
static OrcCode *emu_code;
static int s5_ok[MAXT];
static OrcProgram *mk_emu_prog (void)
{
  OrcProgram *p = orc_program_new_dss (2, 2, 2);
  orc_program_set_name (p, "sched_emu");
  orc_program_add_temporary (p, 2, "t1");
  orc_program_add_temporary (p, 2, "t2");
  orc_program_add_parameter (p, 2, "p1");
  orc_program_add_constant (p, 2, 7, "c1");
  orc_program_append_str (p, "mullw", "t1", "s1", "p1");
  orc_program_append_str (p, "addw", "t2", "t1", "c1");
  orc_program_append_str (p, "subw", "d1", "t2", "s2");
  return p;
}
static int emu_check (int id, int native)
{
  short s1[8], s2[8], d[8], e[8];
  OrcExecutor ex;
  int i, n = 5, par = 3 + 5 * id;
  for (i = 0; i < 8; i++) { s1[i] = (short) (i * 77 + 1000 * id); s2[i] = (short) (i * 13 - 5 - id); d[i] = e[i] = 0x5a5a; }
  for (i = 0; i < n; i++) e[i] = (short) ((short) ((short) (s1[i] * par) + 7) - s2[i]);
  memset (&ex, 0, sizeof (ex));
  ex.arrays[ORC_VAR_A2] = emu_code;
  ex.n = n;
  ex.arrays[ORC_VAR_D1] = d; ex.arrays[ORC_VAR_S1] = s1; ex.arrays[ORC_VAR_S2] = s2;
  ex.params[ORC_VAR_P1] = par;
  if (native) orc_executor_run (&ex); else orc_executor_emulate (&ex);
  return memcmp (d, e, sizeof (d)) == 0;
}
static void body_emulate (int id)
{
  int ok = 1, r;
  for (r = 0; r < 2; r++) {
    if (!emu_check (id, 0)) ok = 0;
    if (!emu_check (id, 1)) ok = 0;
  }
  s5_ok[id] = ok;
}
static void post_emulate (int n)
{
  int i;
  for (i = 0; i < n; i++) if (!s5_ok[i]) fail ("thread %d: emulation or native run of the shared code on its own data gave a wrong result", i);
  check_codemem (1);
}

/* --- S6: the wrappers orcc generates, first call from several threads at once.  The check generates them from the tree's
 * own orcc (xsched_gen_c.c: --compat 0.4.10 --no-backup, the OrcProgram-based lazy initialisation; xsched_gen_d.c: default
 * options, the OrcCode-based one) and they are compiled into this engine with the scheduling hooks. --- */
#ifdef XS_GEN
#define ORC_RESTRICT
#include "xsched_gen_c.c"
#include "xsched_gen_d.c"
static int s6_ok[MAXT];
static void body_generated (int id)
{
  orc_int16 s1[24], s2[24], d[24];
  int i, ok = 1, w;
  for (w = 0; w < 2; w++) {
    for (i = 0; i < 24; i++) { s1[i] = (orc_int16) (i * 37 + id * 1000 + w); s2[i] = (orc_int16) (i * 101 - 7); d[i] = 0x5a5a; }
    if ((id + w) % 2 == 0) gen_c_addw (d, s1, s2, 21); else gen_d_addw (d, s1, s2, 21);
    for (i = 0; i < 21; i++) if (d[i] != (orc_int16) (s1[i] + s2[i])) ok = 0;
    for (i = 21; i < 24; i++) if (d[i] != 0x5a5a) ok = 0;
  }
  s6_ok[id] = ok;
}
static void post_generated (int n)
{
  int i;
  for (i = 0; i < n; i++) if (!s6_ok[i]) fail ("thread %d: a generated wrapper (first call) gave a wrong result", i);
}
#endif

typedef struct { const char *name; Body body; void (*post) (int); int pre_init; } Scenario;
static const Scenario scenarios[] = {
  { "init", body_init, post_init, 0 },
  { "once", body_once, post_once, 1 },
  { "codemem", body_codemem, post_codemem, 1 },
  { "run", body_run, post_run, 1 },
  { "emulate", body_emulate, post_emulate, 1 },
#ifdef XS_GEN
  { "generated", body_generated, post_generated, 1 },
#endif
};
#define NSCEN ((int) (sizeof (scenarios) / sizeof (scenarios[0])))

static void finish_report (const char *extra, int isbad)
{
  if (shm) {
    shm->ntrace = ntrace;
    shm->bad = (bad || isbad) ? 1 : 0;
    shm->diverged = diverged;
    shm->deadlocked = deadlocked;
    shm->contention = contention;
    snprintf (shm->outcome, sizeof (shm->outcome), "%s%s", outcome, extra ? extra : "");
    snprintf (shm->obs, sizeof (shm->obs), "%s", obs);
    shm->done = 1;
  } else {
    printf ("bad=%d diverged=%d deadlock=%d points=%d outcome=%s%s obs=%s\n", bad || isbad, diverged, deadlocked, ntrace, outcome, extra ? extra : "", obs);
  }
}

static void child_run (const Scenario * sc, int nthreads, const int *pre, int npre)
{
  prefix = pre;
  nprefix = npre;
  v_install_handlers ();
  alarm (120);	/* wall-clock backstop only (deadlocks are detected by the scheduler itself) */
  if (sc->pre_init) {
    orc_init ();
    if (sc->body == body_run) {
      OrcProgram *p = mk_prog (0);
      orc_program_compile (p);
      shared_code = orc_program_take_code (p);
      orc_program_free (p);
    }
    if (sc->body == body_emulate) {
      OrcProgram *p = mk_emu_prog ();
      orc_program_compile (p);
      emu_code = orc_program_take_code (p);
      orc_program_free (p);
    }
  }
  run_threads (nthreads, sc->body);
  sc->post (nthreads);
  finish_report (NULL, 0);
  _exit (0);
}

/* ---------------------------------------------------------------- explorer */

typedef struct { int n, bad, diverged, deadlock, died, contention; Choice *c; char outcome[1300]; char obs[420]; } Exec;

static int run_schedule (const Scenario * sc, int nthreads, const int *pre, int npre, Exec * x)
{
  int st, i;
  pid_t pid;
  if (!shm) shm = mmap (NULL, sizeof (Shared), PROT_READ | PROT_WRITE, MAP_SHARED | MAP_ANONYMOUS, -1, 0);
  memset ((void *) shm, 0, sizeof (Shared));
  fflush (stdout);
  pid = fork ();
  if (pid == 0) {
    child_run (sc, nthreads, pre, npre);
    _exit (0);
  }
  waitpid (pid, &st, 0);
  memset (x, 0, sizeof (*x));
  x->n = shm->ntrace;
  x->bad = shm->bad;
  x->diverged = shm->diverged;
  x->deadlock = shm->deadlocked;
  x->contention = shm->contention;
  x->c = malloc (sizeof (Choice) * (x->n + 1));
  for (i = 0; i < x->n; i++) x->c[i] = shm->tr[i];
  snprintf (x->outcome, sizeof (x->outcome), "%s", shm->outcome);
  snprintf (x->obs, sizeof (x->obs), "%s", shm->obs);
  if (!shm->done || !WIFEXITED (st) || WEXITSTATUS (st) != 0) {
    x->died = 1;
    x->bad = 1;
    if (WIFSIGNALED (st)) snprintf (x->outcome, sizeof (x->outcome), "process killed by signal %d under this schedule", WTERMSIG (st));
    else snprintf (x->outcome, sizeof (x->outcome), "process died (exit %d%s) under this schedule", WEXITSTATUS (st),
        WEXITSTATUS (st) >= 90 && WEXITSTATUS (st) <= 97 ? ": fatal signal in library code" : "");
  }
  return 0;
}

static long n_sched, n_points, n_bad, n_deadlock, n_diverged;
static char *outcomes[64];
static int noutcomes;
static int part_i, part_k;
static long top_counter;
static int reported;
static int max_sched_hit;
static long max_sched = 2000000;
static uint64_t state_hashes_seen;

static char baseline[1300];
static int baseline_set;
static long n_contended;
static char *obss[256];
static int nobss;
static void note_obs (const char *o)
{
  int i;
  for (i = 0; i < nobss; i++) if (!strcmp (obss[i], o)) return;
  if (nobss < 256) obss[nobss++] = strdup (o);
}
static void note_outcome (const char *o)
{
  int i;
  for (i = 0; i < noutcomes; i++) if (!strcmp (outcomes[i], o)) return;
  if (noutcomes < 64) outcomes[noutcomes++] = strdup (o);
}

static void explore (const Scenario * sc, int nthreads, int bound, int *pre, int npre, int depth_top)
{
  Exec x;
  int i, cost = 0;
  if (v_expired () || n_sched >= max_sched) { max_sched_hit = 1; return; }
  if (run_schedule (sc, nthreads, pre, npre, &x)) return;
  n_sched++;
  n_points += x.n;
  if (x.deadlock) n_deadlock++;
  if (x.diverged) n_diverged++;
  note_outcome (x.outcome);
  note_obs (x.obs);
  if (x.contention) n_contended++;
  if (!x.bad && baseline_set && strcmp (x.outcome, baseline)) {
    /* as-if-serialised: the observable end state must be the one a single thread produces */
    char tmp[1300];
    snprintf (tmp, sizeof (tmp), "end state differs from the sequential run: [%s] vs sequential [%s]", x.outcome, baseline);
    snprintf (x.outcome, sizeof (x.outcome), "%s", tmp);
    x.bad = 1;
  }
  if (x.bad || x.diverged) {
    n_bad++;
    if (reported < 5) {
      /* replay twice before reporting: the same schedule must fail identically */
      Exec y, z;
      int full[MAXCHOICE], k, same;
      char sched[8000];
      size_t o = 0;
      for (k = 0; k < x.n && k < MAXCHOICE; k++) full[k] = x.c[k].chosen;
      run_schedule (sc, nthreads, full, x.n, &y);
      run_schedule (sc, nthreads, full, x.n, &z);
      same = !strcmp (y.outcome, z.outcome) && (y.bad || strcmp (y.outcome, baseline)) && (z.bad || strcmp (z.outcome, baseline)) && y.died == x.died && y.deadlock == x.deadlock;
      for (k = 0; k < x.n && o < sizeof (sched) - 8; k++) o += sprintf (sched + o, "%s%d", k ? " " : "", x.c[k].chosen);
      if (x.diverged) {
        v_out ("{\"t\":\"viol\",\"key\":\"C08|harness-divergence|%s\",\"what\":\"replay of a recorded prefix diverged (nondeterminism not owned by the scheduler)\",\"replay\":{\"scenario\":\"%s\",\"threads\":%d,\"schedule\":\"%s\"},\"engine_failure\":true}", sc->name, sc->name, nthreads, sched);
      } else if (!same) {
        v_out ("{\"t\":\"viol\",\"key\":\"C08|harness-nondeterminism|%s\",\"what\":\"schedule failed once but not identically on replay: [%s] / [%s] / [%s]\",\"replay\":{\"scenario\":\"%s\",\"threads\":%d,\"schedule\":\"%s\"},\"engine_failure\":true}",
            sc->name, v_esc (x.outcome), v_esc (y.outcome), v_esc (z.outcome), sc->name, nthreads, sched);
      } else {
        int pre_cnt = 0;
        for (k = 0; k < x.n; k++) if (x.c[k].chosen != 0 && x.c[k].cur_enabled) pre_cnt++;
        v_out ("{\"t\":\"viol\",\"key\":\"C08|%s|%s\",\"what\":\"scenario %s, %d threads, %d preemptions: %s (replayed twice, identical)\",\"replay\":{\"scenario\":\"%s\",\"threads\":%d,\"schedule\":\"%s\"}}",
            sc->name, x.deadlock ? "deadlock" : x.died ? "crash" : "oracle", sc->name, nthreads, pre_cnt, v_esc (x.outcome), sc->name, nthreads, sched);
      }
      reported++;
      free (y.c); free (z.c);
    }
  }
  /* alternatives */
  for (i = 0; i < x.n; i++) {
    int alt;
    if (i < npre) { if (x.c[i].chosen != 0 && x.c[i].cur_enabled) cost++; continue; }
    for (alt = 1; alt < x.c[i].nen; alt++) {
      int c2 = cost + (x.c[i].cur_enabled ? 1 : 0);
      int *np, k;
      if (c2 > bound) continue;
      if (depth_top) {
        long my = top_counter++;
        if (part_k > 1 && (my % part_k) != part_i) continue;
      }
      np = malloc (sizeof (int) * (i + 1));
      for (k = 0; k < i; k++) np[k] = x.c[k].chosen;
      np[i] = alt;
      explore (sc, nthreads, bound, np, i + 1, 0);
      free (np);
    }
    /* cost of the choice actually taken at i (always 0 beyond the prefix) */
  }
  free (x.c);
}

int main (int argc, char **argv)
{
  const char *scn = v_arg (argc, argv, "--scenario", "init");
  int nthreads = v_argi (argc, argv, "--threads", 2), bound = v_argi (argc, argv, "--bound", 2), dl = v_argi (argc, argv, "--deadline", 0);
  const char *rep = v_arg (argc, argv, "--replay", NULL), *part = v_arg (argc, argv, "--part", NULL);
  int freerun = v_argi (argc, argv, "--free-run", 0);
  const Scenario *sc = NULL;
  int i;
  for (i = 0; i < NSCEN; i++) if (!strcmp (scenarios[i].name, scn)) sc = &scenarios[i];
  if (!sc) return 2;
  if (dl > 0) v_deadline = v_now () + dl;
  if (part) sscanf (part, "%d/%d", &part_i, &part_k);
  setvbuf (stdout, NULL, _IOLBF, 0);
  if (freerun) {
    /* real concurrency, no scheduler: for the ThreadSanitizer build */
    int r;
    if (sc->pre_init) {
      orc_init ();
      if (sc->body == body_run) { OrcProgram *p = mk_prog (0); orc_program_compile (p); shared_code = orc_program_take_code (p); orc_program_free (p); }
      if (sc->body == body_emulate) { OrcProgram *p = mk_emu_prog (); orc_program_compile (p); emu_code = orc_program_take_code (p); orc_program_free (p); }
    }
    for (r = 0; r < freerun; r++) {
      run_free (nthreads > MAXT ? MAXT : nthreads, sc->body);
      if (sc->body == body_once) break;	/* once scenario is one-shot */
    }
    printf ("free-run done\n");
    return 0;
  }
  if (rep) {
    int pre[MAXCHOICE], n = 0;
    Exec x;
    const char *s = rep;
    while (*s) { while (*s == ' ') s++; if (!*s) break; pre[n++] = atoi (s); while (*s && *s != ' ') s++; }
    run_schedule (sc, nthreads, pre, n, &x);
    printf ("bad=%d diverged=%d deadlock=%d points=%d outcome=%s\n", x.bad, x.diverged, x.deadlock, x.n, x.outcome);
    return x.bad ? 1 : 0;
  }
  {
    int b;
    long completed_bound = -1;
    {
      Exec base;
      run_schedule (sc, 1, NULL, 0, &base);
      if (base.bad) v_out ("{\"t\":\"viol\",\"key\":\"C08|%s|sequential\",\"what\":\"scenario fails even with one thread: %s\",\"replay\":{\"scenario\":\"%s\",\"threads\":1,\"schedule\":\"\"}}", sc->name, v_esc (base.outcome), sc->name);
      snprintf (baseline, sizeof (baseline), "%s", base.outcome);
      baseline_set = 1;
    }
    /* iterative context bounding: each bound explores everything with at most b preemptions */
    for (b = (part_k > 1 ? bound : 0); b <= bound; b++) {
      long before = n_sched;
      top_counter = 0;
      explore (sc, nthreads, b, NULL, 0, 1);
      if (max_sched_hit) break;
      completed_bound = b;
      v_out ("{\"t\":\"note\",\"msg\":\"%s/%d threads: bound %d complete, %ld schedules\"}", sc->name, nthreads, b, n_sched - before);
    }
    (void) state_hashes_seen;
    v_out ("{\"t\":\"stat\",\"schedules\":%ld,\"choice_points\":%ld,\"bad_schedules\":%ld,\"deadlocks\":%ld,\"schedules_with_mutex_contention\":%ld,\"distinct_observations\":%d}", n_sched, n_points, n_bad, n_deadlock, n_contended, nobss);
    v_out ("{\"t\":\"max\",\"distinct_outcomes_%s_%d\":%d,\"bound_completed_%s_%d\":%ld}", sc->name, nthreads, noutcomes, sc->name, nthreads, completed_bound);
    for (i = 0; i < nobss && i < 3; i++) v_out ("{\"t\":\"sample\",\"scenario\":\"%s\",\"threads\":%d,\"end_state\":\"%s\",\"observation\":\"%s\"}", sc->name, nthreads, v_esc (outcomes[0]), v_esc (obss[i]));
    if (max_sched_hit) v_out ("{\"t\":\"incomplete\",\"why\":\"%s/%d: stopped by deadline or schedule cap during bound %d\"}", sc->name, nthreads, b);
  }
  return 0;
}
