/* xcgen: emits, for one shard of an enumerated program space (or for one
 * corpus file), the .orc source that orcc will be run on and the C call
 * thunks that call every generated function through its C prototype.
 *
 *   xcgen --levels L1 --shard i --nshards N --out PREFIX [--noalign 1]
 *   xcgen --file f.orc --out PREFIX
 *
 * writes PREFIX.orc and PREFIX_calls.c.  The thunks follow orcc's documented
 * argument order (destinations [+stride], accumulators, sources [+stride],
 * parameters by declared type, n, m); a disagreement with the prototypes
 * orcc really generates is a compile error in the check. */
#include "pgen.h"

static int shard, nshards, noalign;
static const char *levels, *only;
static FILE *f_orc, *f_calls;
static long g_idx, n_emitted;
static char names[20000][100];
static int nnames;

static void emit_thunk (OrcProgram * p)
{
  int i, first = 1;
  fprintf (f_calls, "static void call_%s (VCall *c)\n{\n  %s (", p->name, p->name);
#define SEP() do { if (!first) fprintf (f_calls, ", "); first = 0; } while (0)
  for (i = 0; i < 4; i++) {
    OrcVariable *v = &p->vars[ORC_VAR_D1 + i];
    if (!v->size) continue;
    SEP ();
    fprintf (f_calls, "(void *) c->arr[%d]", ORC_VAR_D1 + i);
    if (p->is_2d) fprintf (f_calls, ", c->stride[%d]", ORC_VAR_D1 + i);
  }
  for (i = 0; i < 4; i++) {
    OrcVariable *v = &p->vars[ORC_VAR_A1 + i];
    if (!v->size) continue;
    SEP ();
    fprintf (f_calls, "(void *) c->acc[%d]", i);
  }
  for (i = 0; i < 8; i++) {
    OrcVariable *v = &p->vars[ORC_VAR_S1 + i];
    if (!v->size) continue;
    SEP ();
    fprintf (f_calls, "(const void *) c->arr[%d]", ORC_VAR_S1 + i);
    if (p->is_2d) fprintf (f_calls, ", c->stride[%d]", ORC_VAR_S1 + i);
  }
  for (i = 0; i < 8; i++) {
    OrcVariable *v = &p->vars[ORC_VAR_P1 + i];
    if (!v->size) continue;
    SEP ();
    switch (v->param_type) {
      case ORC_PARAM_TYPE_FLOAT: fprintf (f_calls, "c->pflt[%d]", i); break;
      case ORC_PARAM_TYPE_INT64: fprintf (f_calls, "(orc_int64) c->pint[%d]", i); break;
      case ORC_PARAM_TYPE_DOUBLE: fprintf (f_calls, "c->pdbl[%d]", i); break;
      default: fprintf (f_calls, "(int) c->pint[%d]", i); break;
    }
  }
  if (p->constant_n == 0) { SEP (); fprintf (f_calls, "c->n"); }
  if (p->is_2d && p->constant_m == 0) { SEP (); fprintf (f_calls, "c->m"); }
  fprintf (f_calls, ");\n}\n");
  if (nnames < 20000) snprintf (names[nnames++], sizeof (names[0]), "%s", p->name);
  n_emitted++;
}

static void on_prog (VProg * vp, void *user)
{
  long idx = g_idx++;
  char text[4096];
  OrcProgram *p;
  int i;
  (void) user;
  if ((idx % nshards) != shard) return;
  if (only && strcmp (only, vp->name)) return;
  if (noalign) for (i = 0; i < vp->nv; i++) if (vp->v[i].align) return;
  vprog_text (vp, text, sizeof (text));
  fprintf (f_orc, "%s\n", text);
  p = vprog_build (vp);
  emit_thunk (p);
  orc_program_free (p);
}

static char *read_file (const char *fn)
{
  FILE *f = fopen (fn, "rb");
  long n;
  char *b;
  if (!f) return NULL;
  fseek (f, 0, SEEK_END);
  n = ftell (f);
  fseek (f, 0, SEEK_SET);
  b = malloc (n + 1);
  if (fread (b, 1, n, f) != (size_t) n) { fclose (f); free (b); return NULL; }
  b[n] = 0;
  fclose (f);
  return b;
}

/* LL: inline literal operands (the parser's own constant pool, not named constants): the same literal used by two
 * instructions of different width, in both orders, for values whose 8/16/32-bit pattern differs from their 64-bit
 * value; literals wider than 32 bits that share a long prefix; float and double spellings */
static void emit_LL (void)
{
  static const char *addn[] = { "", "addb", "addw", "", "addl", "", "", "", "addq" };
  static const char *lits[] = { "-3", "200", "0xffffffff", "0x80000000", "-2147483648", "65535", "-32768" };
  static char text[1 << 16];
  size_t o = 0;
  int a, b, l, k = 0, i, n;
  OrcProgram **progs = NULL;
  for (a = 1; a <= 8; a *= 2) for (b = 1; b <= 8; b *= 2) for (l = 0; l < 7; l++) {
    if (a == b) continue;
    /* a literal must fit the narrower instruction to be a meaningful operand there */
    if ((a == 1 || b == 1) && l != 0 && l != 1) continue;
    if ((a == 2 || b == 2) && (l == 2 || l == 3 || l == 4)) continue;
    o += snprintf (text + o, sizeof (text) - o, ".function vLL_%d\n.dest %d d1\n.source %d s1\n.dest %d d2\n.source %d s2\n%s d1, s1, %s\n%s d2, s2, %s\n\n",
        k++, a, a, b, b, addn[a], lits[l], addn[b], lits[l]);
  }
  {
    static const char *pairs[][2] = { { "0x0000ffffffff0000L", "0x0000ffffffff8000L" }, { "1000000000001L", "1000000000002L" }, { "0x7fffffffffffffffL", "0x7ffffffffffffffeL" } };
    for (i = 0; i < 3; i++)
      o += snprintf (text + o, sizeof (text) - o, ".function vLL_%d\n.dest 8 d1\n.source 8 s1\n.dest 8 d2\n.source 8 s2\nandq d1, s1, %s\nxorq d2, s2, %s\n\n", k++, pairs[i][0], pairs[i][1]);
  }
  fputs (text, f_orc);
  n = orc_parse (text, &progs);
  for (i = 0; i < n; i++) emit_thunk (progs[i]);
  g_idx += n;
}

int main (int argc, char **argv)
{
  const char *out = v_arg (argc, argv, "--out", "xc");
  const char *file = v_arg (argc, argv, "--file", NULL);
  const char *cls = v_arg (argc, argv, "--classes", "both");
  int classes = !strcmp (cls, "float") ? PG_FLOAT : !strcmp (cls, "int") ? PG_INT : (PG_INT | PG_FLOAT);
  char fn[1024];
  int i;
  shard = v_argi (argc, argv, "--shard", 0);
  nshards = v_argi (argc, argv, "--nshards", 1);
  noalign = v_argi (argc, argv, "--noalign", 0);
  levels = v_arg (argc, argv, "--levels", "L1");
  only = v_arg (argc, argv, "--only", NULL);
  orc_init ();
  v_ops_init ();
  snprintf (fn, sizeof (fn), "%s.orc", out);
  f_orc = fopen (fn, "w");
  snprintf (fn, sizeof (fn), "%s_calls.c", out);
  f_calls = fopen (fn, "w");
  if (!f_orc || !f_calls) { perror (fn); return 2; }
  fprintf (f_calls, "#include \"xcdrv.h\"\n#include \"impl.h\"\n"
      "#ifdef V_INIT_FN\nvoid V_INIT_FN (void);\nvoid v_init (void) { V_INIT_FN (); }\n#else\nvoid v_init (void) { }\n#endif\n");
  if (file) {
    char *code = read_file (file);
    OrcProgram **progs = NULL;
    int n;
    if (!code) { perror (file); return 2; }
    fputs (code, f_orc);
    n = orc_parse (code, &progs);
    for (i = 0; i < n; i++) emit_thunk (progs[i]);
  } else {
    if (strstr (levels, "L1")) pgen_L1 (on_prog, NULL, classes);
    if (strstr (levels, "L2")) pgen_L2 (on_prog, NULL, classes);
    if (strstr (levels, "L3")) pgen_L3 (on_prog, NULL, PG_INT);
    if (strstr (levels, "L5")) pgen_L5 (on_prog, NULL);
    if (strstr (levels, "LB")) pgen_LB (on_prog, NULL);
    if (strstr (levels, "LW")) pgen_LW (on_prog, NULL);
    if (strstr (levels, "LL") && shard == 0) emit_LL ();
  }
  fprintf (f_calls, "const VCallEntry v_calls[] = {\n");
  for (i = 0; i < nnames; i++) fprintf (f_calls, "  { \"%s\", call_%s },\n", names[i], names[i]);
  fprintf (f_calls, "  { 0, 0 }\n};\n");
  fclose (f_orc);
  fclose (f_calls);
  v_out ("{\"t\":\"stat\",\"functions_emitted\":%ld}", n_emitted);
  v_out ("{\"t\":\"max\",\"space_size\":%ld}", g_idx);
  return 0;
}
