/* prints the live opcode table: name dest0 dest1 src0 src1 src2 flags */
#include "vcommon.h"
int main (void) { int i; orc_init (); v_ops_init (); for (i = 0; i < v_nops; i++) printf ("%s %d %d %d %d %d %u\n", v_ops[i].name, v_ops[i].dest_size[0], v_ops[i].dest_size[1], v_ops[i].src_size[0], v_ops[i].src_size[1], v_ops[i].src_size[2], v_ops[i].flags); return 0; }
