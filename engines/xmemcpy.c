/* xmemcpy: orc_memcpy / orc_memset against memcpy / memset for every length
 * in 0..L and every destination and source offset mod 32 (64 for memset),
 * with guard bytes around the destination.  The run-time mode (JIT,
 * ORC_CODE=backup, ORC_CODE=emulate) comes from the environment; the Orc-free
 * bodies (orcfunctions.c compiled with -DDISABLE_ORC) are linked in under the
 * names noorc_memcpy / noorc_memset and checked in the same sweep. */
#include "vcommon.h"

void noorc_memcpy (void *d, const void *s, int n);
void noorc_memset (void *d, int v, int n);

static long st_calls, st_bytes, st_viol;
static const char *mode;

static void viol (const char *fn, const char *impl, int len, int da, int sa, int val, const char *msg)
{
  st_viol++;
  if (st_viol > 5) return;
  v_out ("{\"t\":\"viol\",\"key\":\"C07|%s|%s|%s\",\"what\":\"%s (%s, mode %s): %s; len=%d dest offset=%d src offset=%d value=%d\","
      "\"replay\":{\"fn\":\"%s\",\"impl\":\"%s\",\"mode\":\"%s\",\"len\":%d,\"doff\":%d,\"soff\":%d,\"value\":%d}}",
      fn, impl, mode, fn, impl, mode, msg, len, da, sa, val, fn, impl, mode, len, da, sa, val);
}

int main (int argc, char **argv)
{
  int L = v_argi (argc, argv, "--maxlen", 300);
  int len, da, sa, k, impl;
  unsigned char *src, *dst, *ref;
  size_t cap = (size_t) L + 256;
  mode = v_arg (argc, argv, "--mode", "jit");
  orc_init ();
  src = malloc (cap); dst = malloc (cap); ref = malloc (cap);
  for (k = 0; k < (int) cap; k++) src[k] = (unsigned char) (k * 131 + 7);
  for (impl = 0; impl < 2; impl++) {
    const char *iname = impl ? "orc-free" : "library";
    if (impl && strcmp (mode, "jit")) continue;	/* the Orc-free bodies do not depend on the run-time mode */
    for (len = 0; len <= L; len++) {
      for (da = 0; da < 32; da++) for (sa = 0; sa < 32; sa++) {
        memset (dst, 0xa5, cap); memset (ref, 0xa5, cap);
        memcpy (ref + 64 + da, src + 64 + sa, len);
        if (impl) noorc_memcpy (dst + 64 + da, src + 64 + sa, len); else orc_memcpy (dst + 64 + da, src + 64 + sa, len);
        st_calls++; st_bytes += len;
        if (memcmp (dst, ref, cap)) {
          size_t b; for (b = 0; b < cap && dst[b] == ref[b]; b++);
          { char m[160]; snprintf (m, sizeof (m), "byte %ld relative to the destination is 0x%02x, memcpy gives 0x%02x", (long) b - 64 - da, dst[b], ref[b]); viol ("orc_memcpy", iname, len, da, sa, 0, m); }
        }
      }
      for (da = 0; da < 64; da++) {
        static const int vals[] = { 0, 0x5a, 0xff, 0x180, -1 };
        for (k = 0; k < 5; k++) {
          memset (dst, 0xa5, cap); memset (ref, 0xa5, cap);
          memset (ref + 64 + da, vals[k], len);
          if (impl) noorc_memset (dst + 64 + da, vals[k], len); else orc_memset (dst + 64 + da, vals[k], len);
          st_calls++; st_bytes += len;
          if (memcmp (dst, ref, cap)) {
            size_t b; for (b = 0; b < cap && dst[b] == ref[b]; b++);
            { char m[160]; snprintf (m, sizeof (m), "byte %ld relative to the destination is 0x%02x, memset gives 0x%02x", (long) b - 64 - da, dst[b], ref[b]); viol ("orc_memset", iname, len, da, 0, vals[k], m); }
          }
        }
      }
    }
  }
  v_out ("{\"t\":\"stat\",\"memfn_calls\":%ld,\"memfn_bytes\":%ld,\"memfn_violations_raw\":%ld}", st_calls, st_bytes, st_viol);
  v_out ("{\"t\":\"sample\",\"functions\":\"orc_memcpy, orc_memset (library and Orc-free bodies)\",\"mode\":\"%s\",\"lengths\":\"0..%d\",\"offsets\":\"dest 0..31 x src 0..31; memset dest 0..63 x 5 values\"}", mode, L);
  return 0;
}
