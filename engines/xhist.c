/* xhist: breadth-first exploration of operation histories on the real code
 * (S-hist).  Mode c09: code-memory allocator under alloc/compile/free
 * histories.  A node is its history; its state is rebuilt by replaying the
 * history in a child forked from a zygote that has only run orc_init(); every
 * successor is executed in a further fork of that child.  The parent (python)
 * deduplicates canonical states and drives the levels.
 *
 * stdin: one history per line (space separated op codes; empty line = root)
 * stdout: JSON lines
 *   {"t":"node","h":"..","canon":"..","nlive":k}
 *   {"t":"tr","h":"..","op":o,"canon":"..","ok":1}
 *   {"t":"viol",...}
 */
#include "vcommon.h"
#include "vrun.h"
#include <orc/orcverif.h>

/* ---- operation alphabet ---- */
static int sizes[16];
static int nsizes;
#define NPROG 2
#define OP_FREE 100

/* ---- live objects ---- */
typedef struct {
  OrcCode *code;
  int req;			/* requested size (raw alloc) or -1-prog for compiled code */
  unsigned char pat;
  int id;
} Obj;
static Obj live[64];
static int nlive;
static int next_id;

/* ---- walker snapshot ---- */
typedef struct { int region; unsigned char *w, *x; int rsize, off, size, used; } Chunk;
static Chunk chunks[4096];
static int nchunks;
static void walk_cb (void *user, int region, void *w, void *x, int rsize, int off, int size, int used)
{
  (void) user;
  if (nchunks < 4096) {
    Chunk *c = &chunks[nchunks++];
    c->region = region; c->w = w; c->x = x; c->rsize = rsize; c->off = off; c->size = size; c->used = used;
  }
}
static int nregions (void)
{
  int i, r = 0;
  for (i = 0; i < nchunks; i++) if (chunks[i].region + 1 > r) r = chunks[i].region + 1;
  return r;
}
static void snapshot (void) { nchunks = 0; orc_verif_codemem_walk (walk_cb, NULL); }

static char vmsg[600];

static OrcProgram *make_prog (int j)
{
  OrcProgram *p;
  if (j == 0) {
    p = orc_program_new_dss (2, 2, 2);
    orc_program_set_name (p, "h_addw");
    orc_program_append_str (p, "addw", "d1", "s1", "s2");
  } else {
    p = orc_program_new_dss (1, 1, 1);
    orc_program_set_name (p, "h_chain");
    orc_program_add_temporary (p, 2, "t1");
    orc_program_add_temporary (p, 2, "t2");
    orc_program_append_ds_str (p, "convubw", "t1", "s1");
    orc_program_append_ds_str (p, "convubw", "t2", "s2");
    orc_program_append_str (p, "mullw", "t1", "t1", "t2");
    orc_program_append_str (p, "addw", "t1", "t1", "t2");
    orc_program_append_ds_str (p, "div255w", "t1", "t1");
    orc_program_append_ds_str (p, "convwb", "d1", "t1");
  }
  return p;
}

/* run a code-only executor natively and by emulation; compare */
static int run_code (Obj * o)
{
  int j = -1 - o->req, esz = j == 0 ? 2 : 1, n = 37, i;
  unsigned char s1[128], s2[128], d_jit[128], d_emu[128];
  OrcExecutor ex;
  for (i = 0; i < 128; i++) { s1[i] = (unsigned char) (i * 7 + 3); s2[i] = (unsigned char) (i * 13 + 1); }
  memset (d_jit, 0x5a, sizeof (d_jit));
  memset (d_emu, 0x5a, sizeof (d_emu));
  memset (&ex, 0, sizeof (ex));
  ex.program = NULL;
  ex.arrays[ORC_VAR_A2] = o->code;
  ex.n = n;
  ex.arrays[ORC_VAR_D1] = d_jit; ex.arrays[ORC_VAR_S1] = s1; ex.arrays[ORC_VAR_S2] = s2;
  orc_executor_run (&ex);
  memset (&ex, 0, sizeof (ex));
  ex.arrays[ORC_VAR_A2] = o->code;
  ex.n = n;
  ex.arrays[ORC_VAR_D1] = d_emu; ex.arrays[ORC_VAR_S1] = s1; ex.arrays[ORC_VAR_S2] = s2;
  orc_executor_emulate (&ex);
  (void) esz;
  return memcmp (d_jit, d_emu, sizeof (d_jit)) == 0;
}

static unsigned char *saved_code[64];

/* Interval-set model, independent of the chunk lists: the free space of a
 * region is the complement of the live objects' extents (rounded up to the
 * 16-byte allocation unit).  Returns the largest gap over all regions. */
static int model_largest_gap (void)
{
  int r, best = 0, nr;
  snapshot ();
  nr = nregions ();
  for (r = 0; r < nr; r++) {
    unsigned char *base = NULL;
    int rsize = 0, i, pos = 0;
    for (i = 0; i < nchunks; i++) if (chunks[i].region == r) { base = chunks[i].w; rsize = chunks[i].rsize; break; }
    /* live[] is kept in address order */
    for (;;) {
      int nexto = rsize, nexte = rsize;
      for (i = 0; i < nlive; i++) {
        long off = live[i].code->code - base;
        if (off < 0 || off >= rsize) continue;
        if (off >= pos && off < nexto) { nexto = (int) off; nexte = (int) off + ((live[i].code->code_size > 0 ? live[i].code->code_size : 1) + 15) / 16 * 16; }
      }
      if (nexto - pos > best) best = nexto - pos;
      if (nexto >= rsize) break;
      pos = nexte;
    }
  }
  return best;
}

/* invariants on the current state; returns 0 if fine, else fills vmsg */
static int check_state (void)
{
  int i, j;
  snapshot ();
  /* I1 tiling, I2 coalescing */
  for (i = 0; i < nchunks; i++) {
    Chunk *c = &chunks[i];
    int first = (i == 0 || chunks[i - 1].region != c->region);
    int last = (i == nchunks - 1 || chunks[i + 1].region != c->region);
    if (c->size <= 0) { snprintf (vmsg, sizeof vmsg, "chunk with size %d at region %d offset %d", c->size, c->region, c->off); return 1; }
    if (first && c->off != 0) { snprintf (vmsg, sizeof vmsg, "region %d does not start at offset 0 (%d)", c->region, c->off); return 1; }
    if (!first && chunks[i - 1].off + chunks[i - 1].size != c->off) {
      snprintf (vmsg, sizeof vmsg, "region %d: chunks do not tile: [%d,+%d) then offset %d", c->region, chunks[i - 1].off, chunks[i - 1].size, c->off);
      return 1;
    }
    if (last && c->off + c->size != c->rsize) { snprintf (vmsg, sizeof vmsg, "region %d: chunks end at %d, region size %d", c->region, c->off + c->size, c->rsize); return 1; }
    if (!first && !chunks[i - 1].used && !c->used) { snprintf (vmsg, sizeof vmsg, "region %d: adjacent free chunks at %d and %d (not coalesced)", c->region, chunks[i - 1].off, c->off); return 2; }
  }
  /* I3 every live object sits in its own used chunk inside a region */
  {
    int used = 0;
    for (i = 0; i < nchunks; i++) used += chunks[i].used != 0;
    if (used != nlive) { snprintf (vmsg, sizeof vmsg, "%d used chunks but %d live objects", used, nlive); return 3; }
  }
  for (i = 0; i < nlive; i++) {
    Obj *o = &live[i];
    int found = -1, sz = o->code->code_size;
    for (j = 0; j < nchunks; j++) {
      Chunk *c = &chunks[j];
      if (o->code->code == c->w + c->off) { found = j; break; }
    }
    if (found < 0) { snprintf (vmsg, sizeof vmsg, "live object %d (size %d): write pointer not at the start of any chunk", o->id, sz); return 3; }
    if (!chunks[found].used) { snprintf (vmsg, sizeof vmsg, "live object %d lies in a chunk marked free (region %d offset %d)", o->id, chunks[found].region, chunks[found].off); return 3; }
    if ((unsigned char *) o->code->exec != chunks[found].x + chunks[found].off) { snprintf (vmsg, sizeof vmsg, "live object %d: exec pointer does not match its chunk", o->id); return 3; }
    if (sz > chunks[found].size) { snprintf (vmsg, sizeof vmsg, "live object %d: %d bytes in a chunk of %d", o->id, sz, chunks[found].size); return 3; }
    for (j = 0; j < i; j++) {
      unsigned char *a = live[j].code->code, *b = o->code->code;
      if (a < b + sz && b < a + live[j].code->code_size) { snprintf (vmsg, sizeof vmsg, "live objects %d and %d overlap", live[j].id, o->id); return 3; }
    }
    /* I4 bytes intact, seen through both mappings */
    if (o->req >= 0) {
      int k;
      unsigned char *w = o->code->code, *x = (unsigned char *) o->code->exec;
      for (k = 0; k < sz; k++) {
        unsigned char want = (unsigned char) (o->pat + k * 31);
        if (w[k] != want || x[k] != want) { snprintf (vmsg, sizeof vmsg, "live object %d: byte %d changed (0x%02x/0x%02x, written 0x%02x)", o->id, k, w[k], x[k], want); return 4; }
      }
    } else {
      if (memcmp (o->code->exec, saved_code[i], sz)) { snprintf (vmsg, sizeof vmsg, "live compiled function %d: machine code bytes changed", o->id); return 4; }
      if (!run_code (o)) { snprintf (vmsg, sizeof vmsg, "live compiled function %d computes a wrong result at its placement", o->id); return 4; }
    }
  }
  return 0;
}

/* canonical state: region chunk lists + requested sizes of live objects in address order */
static const char *canon (void)
{
  static char buf[8192];
  size_t o = 0;
  int i, j;
  snapshot ();
  for (i = 0; i < nchunks && o < sizeof (buf) - 64; i++) {
    Chunk *c = &chunks[i];
    int req = 0;
    if (i == 0 || chunks[i - 1].region != c->region) o += snprintf (buf + o, sizeof (buf) - o, "%sR", i ? "|" : "");
    for (j = 0; j < nlive; j++) if (live[j].code->code == c->w + c->off) req = live[j].req >= 0 ? live[j].code->code_size : live[j].req;
    if (c->used) o += snprintf (buf + o, sizeof (buf) - o, "[%d+%d:%d]", c->off, c->size, req);
    else o += snprintf (buf + o, sizeof (buf) - o, "(%d+%d)", c->off, c->size);
  }
  buf[o] = 0;
  return buf;
}

static int cmp_obj (const void *a, const void *b)
{
  const Obj *x = a, *y = b;
  return (x->code->code > y->code->code) - (x->code->code < y->code->code);
}
static void sort_live (void)
{
  /* canonical order = address order, so that free(k) means the same in merged states */
  int i;
  unsigned char *tmp[64];
  Obj old[64];
  memcpy (old, live, sizeof (Obj) * nlive);
  qsort (live, nlive, sizeof (Obj), cmp_obj);
  for (i = 0; i < nlive; i++) {
    int j;
    for (j = 0; j < nlive; j++) if (old[j].id == live[i].id) tmp[i] = saved_code[j];
  }
  memcpy (saved_code, tmp, sizeof (tmp[0]) * nlive);
}

/* apply one operation; returns 0 ok, >0 invariant class violated (vmsg set) */
static int apply (int op)
{
  int before_regions, fits = 0, i, aligned, gap_before;
  gap_before = model_largest_gap ();
  snapshot ();
  before_regions = nregions ();
  if (op >= OP_FREE) {
    int k = op - OP_FREE;
    if (k >= nlive) return -1;
    orc_code_free (live[k].code);
    free (saved_code[k]);
    memmove (&live[k], &live[k + 1], sizeof (Obj) * (nlive - k - 1));
    memmove (&saved_code[k], &saved_code[k + 1], sizeof (saved_code[0]) * (nlive - k - 1));
    nlive--;
  } else if (op < nsizes) {
    OrcCode *code = orc_code_new ();
    int k, sz = sizes[op];
    aligned = ((sz > 0 ? sz : 1) + 15) & ~15;	/* a request for 0 bytes (a code object of the C back end) still owns a minimal chunk */
    for (i = 0; i < nchunks; i++) if (!chunks[i].used && chunks[i].size >= aligned) fits = 1;
    orc_code_allocate_codemem (code, sz);
    if (!code->chunk) { snprintf (vmsg, sizeof vmsg, "allocation of %d bytes failed", sz); return 5; }
    live[nlive].code = code; live[nlive].req = sz; live[nlive].id = next_id++;
    live[nlive].pat = (unsigned char) (live[nlive].id * 53 + 17);
    for (k = 0; k < sz; k++) code->code[k] = (unsigned char) (live[nlive].pat + k * 31);
    saved_code[nlive] = NULL;
    nlive++;
    snapshot ();
    if (fits && nregions () != before_regions) { snprintf (vmsg, sizeof vmsg, "allocation of %d bytes opened region %d although a free chunk could hold it", sz, nregions () - 1); return 6; }
    if (!fits && nregions () != before_regions + 1) { snprintf (vmsg, sizeof vmsg, "allocation of %d bytes: regions %d -> %d", sz, before_regions, nregions ()); return 6; }
  } else {
    int j = op - nsizes;
    OrcProgram *p = make_prog (j), *a = NULL;
    OrcCompileResult r;
    OrcCode *code;
    /* program 1 is compiled while another program that was compiled and then reset still exists; that one is freed
     * after the compile: what a reset released is released once, whoever owns the memory by then */
    if (j == 1) {
      a = make_prog (0);
      if (ORC_COMPILE_RESULT_IS_SUCCESSFUL (orc_program_compile (a))) orc_program_reset (a);
    }
    r = orc_program_compile (p);
    if (a) orc_program_free (a);
    /* program 0 is compiled a second time while it still owns the code of the first compile (no reset in between): the
     * first code object has to go back to the allocator */
    if (j == 0 && ORC_COMPILE_RESULT_IS_SUCCESSFUL (r)) r = orc_program_compile (p);
    if (!ORC_COMPILE_RESULT_IS_SUCCESSFUL (r)) { snprintf (vmsg, sizeof vmsg, "probe program %d did not compile (%d)", j, r); orc_program_free (p); return 5; }
    code = orc_program_take_code (p);
    orc_program_free (p);
    live[nlive].code = code; live[nlive].req = -1 - j; live[nlive].id = next_id++; live[nlive].pat = 0;
    saved_code[nlive] = malloc (code->code_size);
    memcpy (saved_code[nlive], code->exec, code->code_size);
    nlive++;
  }
  sort_live ();
  if (op < OP_FREE) {
    /* reuse oracle against the model: memory not covered by any live object
     * must be usable, so an object that fits a model gap opens no region */
    int k, need = 0;
    for (k = 0; k < nlive; k++) if (live[k].id == next_id - 1) need = ((live[k].code->code_size > 0 ? live[k].code->code_size : 1) + 15) / 16 * 16;
    snapshot ();
    if (need <= gap_before && nregions () != before_regions) {
      snprintf (vmsg, sizeof vmsg, "object of %d bytes opened region %d although %d contiguous bytes not covered by any live object were available (released memory not reusable)", need, nregions () - 1, gap_before);
      return 6;
    }
  }
  return check_state ();
}

static void emit_viol (const char *h, int op, int cls)
{
  static const char *names[] = { "", "tiling", "coalesce", "placement", "bytes", "allocfail", "regions", "freeall", "rerun" };
  v_out ("{\"t\":\"viol\",\"key\":\"C09|%s\",\"what\":\"after history [%s] op %d: %s\",\"replay\":{\"history\":\"%s %d\"}}",
      names[cls], h, op, v_esc (vmsg), h, op);
}

/* closure obligations evaluated in a state: free everything => one free chunk
 * per region; replay of the same history => no further region */
static int check_closure (const int *hist, int nh)
{
  int i, regs;
  while (nlive) { orc_code_free (live[0].code); memmove (&live[0], &live[1], sizeof (Obj) * (nlive - 1)); nlive--; }
  snapshot ();
  for (i = 0; i < nchunks; i++) {
    if (chunks[i].used || chunks[i].off != 0 || chunks[i].size != chunks[i].rsize) {
      snprintf (vmsg, sizeof vmsg, "after freeing every object region %d is not one free chunk (offset %d size %d used %d)", chunks[i].region, chunks[i].off, chunks[i].size, chunks[i].used);
      return 7;
    }
  }
  regs = nregions ();
  for (i = 0; i < nh; i++) {
    /* frees are replayed as they were (indices refer to address order again) */
    int r = apply (hist[i]);
    if (r > 0) return r;
  }
  snapshot ();
  if (nregions () != regs) { snprintf (vmsg, sizeof vmsg, "repeating the history after freeing everything grew the regions from %d to %d", regs, nregions ()); return 8; }
  return 0;
}

static int parse_hist (const char *s, int *out)
{
  int n = 0;
  while (*s) {
    while (*s == ' ') s++;
    if (!*s || *s == '\n') break;
    out[n++] = atoi (s);
    while (*s && *s != ' ' && *s != '\n') s++;
  }
  return n;
}

int main (int argc, char **argv)
{
  char line[1024];
  int closure = v_flag (argc, argv, "--closure");
  int leaf = v_flag (argc, argv, "--leaf");
  const char *sz = v_arg (argc, argv, "--sizes", "16,17,30000,32752,65520,65536");
  {
    char b[256], *t, *save;
    strncpy (b, sz, 255); b[255] = 0;
    for (t = strtok_r (b, ",", &save); t; t = strtok_r (NULL, ",", &save)) sizes[nsizes++] = atoi (t);
  }
  orc_init ();			/* zygote: library initialised, no code region registered */
  setvbuf (stdout, NULL, _IOLBF, 0);
  while (fgets (line, sizeof (line), stdin)) {
    int hist[64], nh, i, st;
    pid_t pid;
    char *nl = strchr (line, '\n');
    if (nl) *nl = 0;
    nh = parse_hist (line, hist);
    fflush (stdout);
    pid = fork ();
    if (pid == 0) {
      int r = 0, op;
      v_install_handlers ();
      for (i = 0; i < nh && r == 0; i++) r = apply (hist[i]);
      if (r != 0) { if (r > 0) emit_viol (line, -1, r); _exit (0); }
      v_out ("{\"t\":\"node\",\"h\":\"%s\",\"canon\":\"%s\",\"nlive\":%d,\"regions\":%d}", line, canon (), nlive, (snapshot (), nregions ()));
      /* successors, each in its own fork of this state */
      for (op = 0; op < OP_FREE + nlive && !leaf; op++) {
        pid_t g;
        int gst;
        if (op >= nsizes + NPROG && op < OP_FREE) continue;
        fflush (stdout);
        g = fork ();
        if (g == 0) {
          int rr = apply (op);
          if (rr > 0) emit_viol (line, op, rr);
          else if (rr == 0) {
            v_out ("{\"t\":\"tr\",\"h\":\"%s\",\"op\":%d,\"canon\":\"%s\"}", line, op, canon ());
          }
          fflush (stdout);
          _exit (0);
        }
        waitpid (g, &gst, 0);
        if (!WIFEXITED (gst) || WEXITSTATUS (gst) != 0) {
          v_out ("{\"t\":\"viol\",\"key\":\"C09|crash\",\"what\":\"process died (status 0x%x) applying op %d after history [%s]\",\"replay\":{\"history\":\"%s %d\"}}", gst, op, line, line, op);
        }
      }
      /* closure obligations for this state, after every successor has been
       * explored (the replay re-uses memory that forked successors shared) */
      if (closure) {
        r = check_closure (hist, nh);
        if (r > 0) emit_viol (line, -2, r);
        else v_out ("{\"t\":\"stat\",\"closures\":1}");
      }
      fflush (stdout);
      _exit (0);
    }
    waitpid (pid, &st, 0);
    if (!WIFEXITED (st) || WEXITSTATUS (st) != 0)
      v_out ("{\"t\":\"viol\",\"key\":\"C09|crash\",\"what\":\"process died (status 0x%x) replaying history [%s]\",\"replay\":{\"history\":\"%s\"}}", st, line, line);
  }
  return 0;
}
