/* xfault: enumeration of operating-system fault vectors around the
 * acquisition of executable memory (C06).  The engine defines mkstemp,
 * ftruncate and mmap itself (link-time interposition over the static library)
 * and answers from a decision vector: (A) every set of <= k failing call
 * indexes, the call sequence being discovered as it unfolds; (B) persistent
 * failure of every subset of call classes, from the start or from after
 * initialisation.  Crossed with environment/ORC_CODE/backup/executor/program
 * configurations; one forked child per vector. */
#define _GNU_SOURCE
#include "vcommon.h"
#include <errno.h>
#include <dirent.h>
#include <sys/syscall.h>
#include <orc/orcverif.h>

enum { CL_MKSTEMP, CL_FTRUNC, CL_MMAP_EXEC, CL_MMAP_WRITE, CL_MMAP_ANON, CL_N };
static const char clname[] = "mtxwa";

static int f_active;
static int f_idx;			/* running call index */
static unsigned char f_fail[256];	/* transient: indexes that fail */
static int f_persist;			/* persistent: bit mask of classes that always fail */
static int f_persist_on;
static char f_log[200];

static int decide (int cls)
{
  int k = f_idx++, fail = 0;
  if (!f_active) return 0;
  if (k < (int) sizeof (f_fail) && f_fail[k]) fail = 1;
  if (f_persist_on && (f_persist >> cls & 1)) fail = 1;
  if (k < (int) sizeof (f_log) - 1) { f_log[k] = fail ? (char) (clname[cls] - 32) : clname[cls]; f_log[k + 1] = 0; }
  return fail;
}

int mkstemp (char *t)
{
  if (decide (CL_MKSTEMP)) { errno = EACCES; return -1; }
  return mkostemp (t, 0);
}
int ftruncate (int fd, off_t len)
{
  if (decide (CL_FTRUNC)) { errno = ENOSPC; return -1; }
  return (int) syscall (SYS_ftruncate, fd, len);
}
void *mmap (void *a, size_t len, int prot, int flags, int fd, off_t off)
{
  int cls = -1;
  if (len == 65536) {
    if (flags & MAP_ANONYMOUS) cls = (prot & PROT_EXEC) ? CL_MMAP_ANON : -1;
    else cls = (prot & PROT_EXEC) ? CL_MMAP_EXEC : CL_MMAP_WRITE;
  }
  if (cls >= 0 && decide (cls)) { errno = EPERM; return MAP_FAILED; }
  return (void *) syscall (SYS_mmap, a, len, prot, flags, fd, off);
}

/* ------------------------------------------------------------ configuration */
typedef struct {
  int envmask;			/* bit0 XDG_RUNTIME_DIR, bit1 HOME, bit2 TMPDIR set */
  int orc_code;			/* 0 unset 1 emulate 2 backup 3 debug 4 backup,emulate */
  int backup;			/* backup function registered */
  int codeonly;			/* 0 executor bound to the program after the compile, 1 code-only executor, 2 executor bound before the compile, 3 as 0 on the second compile after take_code + reset */
  int prog;			/* 0 addw 1 no rule on target (float on mmx) 2 register exhaustion 3 fatal */
} Cfg;
static const char *orc_codes[] = { NULL, "emulate", "backup", "debug", "backup,emulate" };
static const char *prognames[] = { "addw", "norule", "regs", "fatal", "gpregs", "resample-read-again", "never-compiled", "application-opcode-without-rule" };
static const char *scratch;

static int backup_calls;
static void backup_fn (OrcExecutor * ex)
{
  int i;
  backup_calls++;
  for (i = 0; i < ex->n; i++) ((unsigned char *) ex->arrays[ORC_VAR_D1])[i] = 0xB7;
}

static void xf_emu (OrcOpcodeExecutor *ex, int offset, int n)
{
  int i;
  const orc_uint16 *a = ex->src_ptrs[0], *b = ex->src_ptrs[1];
  orc_uint16 *d = ex->dest_ptrs[0];
  (void) offset;
  for (i = 0; i < n; i++) d[i] = (orc_uint16) (a[i] + b[i]);
}
static OrcStaticOpcode xf_set[] = { { "xfaddw", 0, { 2 }, { 2, 2 }, xf_emu }, { "" } };
static int xf_registered;

static OrcProgram *mk (int kind)
{
  OrcProgram *p;
  int i;
  char nm[8], cn[8];
  if (kind == 7 && !xf_registered) { orc_opcode_register_static (xf_set, "xfault"); xf_registered = 1; }
  switch (kind) {
    case 0:
      p = orc_program_new_dss (2, 2, 2);
      orc_program_append_str (p, "addw", "d1", "s1", "s2");
      break;
    case 1:
      p = orc_program_new_dss (4, 4, 4);
      orc_program_append_str (p, "addf", "d1", "s1", "s2");
      break;
    case 2:
      p = orc_program_new_dss (2, 2, 2);
      for (i = 0; i < 14; i++) {
        sprintf (nm, "t%d", i + 1); sprintf (cn, "c%d", i + 1);
        orc_program_add_temporary (p, 2, nm);
      }
      for (i = 0; i < 8; i++) { sprintf (cn, "c%d", i + 1); orc_program_add_constant (p, 2, 1000 * (i + 1) + 7, cn); }
      for (i = 0; i < 14; i++) {
        sprintf (nm, "t%d", i + 1); sprintf (cn, "c%d", (i % 8) + 1);
        orc_program_append_str (p, i & 1 ? "xorw" : "addw", nm, i == 0 ? "s1" : "s2", cn);
      }
      for (i = 1; i < 14; i++) { sprintf (nm, "t%d", i + 1); orc_program_append_str (p, "xorw", "t1", "t1", nm); }
      orc_program_append_str (p, "addw", "d1", "t1", "s1");
      break;
    case 4:
      /* general-register exhaustion: 12 array pointers plus the offset registers of two resampled sources, no
       * register left for the loop counter */
      p = orc_program_new ();
      for (i = 0; i < 4; i++) { sprintf (nm, "d%d", i + 1); orc_program_add_destination (p, 4, nm); }
      for (i = 0; i < 8; i++) { sprintf (nm, "s%d", i + 1); orc_program_add_source (p, 4, nm); }
      orc_program_add_temporary (p, 4, "t1");
      orc_program_add_temporary (p, 4, "t2");
      orc_program_add_constant (p, 4, 0, "c1");
      orc_program_add_constant (p, 4, 0x10000, "c2");
      orc_program_append_2 (p, "ldresnearl", 0, orc_program_find_var_by_name (p, "t1"), orc_program_find_var_by_name (p, "s7"), orc_program_find_var_by_name (p, "c1"), orc_program_find_var_by_name (p, "c2"));
      orc_program_append_2 (p, "ldresnearl", 0, orc_program_find_var_by_name (p, "t2"), orc_program_find_var_by_name (p, "s8"), orc_program_find_var_by_name (p, "c1"), orc_program_find_var_by_name (p, "c2"));
      orc_program_append_str (p, "addl", "d1", "t1", "s1");
      orc_program_append_str (p, "addl", "d2", "t2", "s2");
      orc_program_append_str (p, "addl", "d3", "s3", "s4");
      orc_program_append_str (p, "addl", "d4", "s5", "s6");
      break;
    case 5:
      /* refused by the sse back end before any code is generated (a resampled array read again): non fatal */
      p = orc_program_new ();
      orc_program_add_destination (p, 4, "d1");
      orc_program_add_source (p, 4, "s1");
      orc_program_add_source (p, 4, "s2");
      orc_program_add_temporary (p, 4, "t1");
      orc_program_add_constant (p, 4, 0, "c1");
      orc_program_add_constant (p, 4, 0x10000, "c2");
      orc_program_append_2 (p, "ldresnearl", 0, orc_program_find_var_by_name (p, "t1"), orc_program_find_var_by_name (p, "s1"), orc_program_find_var_by_name (p, "c1"), orc_program_find_var_by_name (p, "c2"));
      orc_program_append_str (p, "addl", "d1", "t1", "s1");
      break;
    case 6:
      p = orc_program_new_dss (2, 2, 2);
      orc_program_append_str (p, "addw", "d1", "s1", "s2");
      break;
    case 7:
      /* an opcode of an application-registered set for which no back end has a rule: emulation through the application's
       * function is the only implementation */
      p = orc_program_new_dss (2, 2, 2);
      orc_program_append_str (p, "xfaddw", "d1", "s1", "s2");
      break;
    default:
      p = orc_program_new_dss (2, 2, 2);
      orc_program_append_str (p, "addl", "d1", "s1", "s2");	/* size mismatch: fatal */
      break;
  }
  orc_program_set_name (p, prognames[kind]);
  return p;
}

static void expected (int kind, const unsigned char *s1, const unsigned char *s2, unsigned char *d, int n)
{
  int i, k;
  if (kind == 5) for (i = 0; i < n; i++) { unsigned a, r; memcpy (&a, s1 + 4 * i, 4); r = a + a; memcpy (d + 4 * i, &r, 4); }
  else if (kind == 0 || kind == 6 || kind == 7) for (i = 0; i < n; i++) { unsigned short a, b, r; memcpy (&a, s1 + 2 * i, 2); memcpy (&b, s2 + 2 * i, 2); r = (unsigned short) (a + b); memcpy (d + 2 * i, &r, 2); }
  else if (kind == 1) for (i = 0; i < n; i++) { float a, b, r; memcpy (&a, s1 + 4 * i, 4); memcpy (&b, s2 + 4 * i, 4); r = a + b; memcpy (d + 4 * i, &r, 4); }
  else for (i = 0; i < n; i++) {
    unsigned short a, b, t[14], r;
    memcpy (&a, s1 + 2 * i, 2); memcpy (&b, s2 + 2 * i, 2);
    for (k = 0; k < 14; k++) { unsigned short c = (unsigned short) (1000 * ((k % 8) + 1) + 7), src = k == 0 ? a : b; t[k] = (k & 1) ? (unsigned short) (src ^ c) : (unsigned short) (src + c); }
    for (k = 1; k < 14; k++) t[0] ^= t[k];
    r = (unsigned short) (t[0] + a);
    memcpy (d + 2 * i, &r, 2);
  }
}

static int count_fds (void)
{
  DIR *d = opendir ("/proc/self/fd");
  int n = 0;
  if (!d) return -1;
  while (readdir (d)) n++;
  closedir (d);
  return n;
}
static int count_maps (void)
{
  FILE *f = fopen ("/proc/self/maps", "r");
  int n = 0, c;
  if (!f) return -1;
  while ((c = fgetc (f)) != EOF) if (c == '\n') n++;
  fclose (f);
  return n;
}

typedef struct { int rc; int ncalls; char log[200]; char msg[300]; int native; } Report;

/* one compile + run + check; returns 0 ok */
static int one_use (const Cfg * c, char *msg, size_t cap, int *native)
{
  OrcProgram *p = mk (c->prog);
  OrcCompileResult r;
  OrcCode *code = NULL;
  unsigned char s1[64], s2[64], d[64], e[64];
  OrcExecutor exs, *ex = &exs;
  int i, n = 7, esz = (c->prog == 1 || c->prog == 5) ? 4 : 2, before = backup_calls, calls;
  if (c->backup) orc_program_set_backup_function (p, backup_fn);
  if (c->codeonly == 2) { memset (ex, 0, sizeof (*ex)); orc_executor_set_program (ex, p); }	/* the executor outlives the compile */
  if (c->prog == 1) r = orc_program_compile_for_target (p, orc_target_get_by_name ("mmx"));
  else if (c->prog == 5) r = orc_program_compile_for_target (p, orc_target_get_by_name ("sse"));
  else if (c->prog == 6) r = ORC_COMPILE_RESULT_UNKNOWN_COMPILE;	/* never compiled: only the backup function can run it */
  else r = orc_program_compile (p);
  if (c->prog == 3) {
    int ok = ORC_COMPILE_RESULT_IS_FATAL (r);
    orc_program_free (p);
    if (!ok) { snprintf (msg, cap, "invalid program compiled with result 0x%x", r); return 1; }
    return 0;
  }
  if (ORC_COMPILE_RESULT_IS_FATAL (r)) { snprintf (msg, cap, "valid program %s got fatal result 0x%x (no fallback possible)", prognames[c->prog], r); orc_program_free (p); return 1; }
  if (c->codeonly == 3) {
    /* the program's second life: the code of the first compile is taken and released, the program reset and
     * compiled again the same way; what is run and judged below is the second compile */
    OrcCode *first = orc_program_take_code (p);
    if (!first) { snprintf (msg, cap, "take_code returned NULL after a non-fatal compile (result 0x%x)", r); orc_program_free (p); return 1; }
    orc_code_free (first);
    orc_program_reset (p);
    if (c->prog == 1) r = orc_program_compile_for_target (p, orc_target_get_by_name ("mmx"));
    else if (c->prog == 5) r = orc_program_compile_for_target (p, orc_target_get_by_name ("sse"));
    else r = orc_program_compile (p);
    if (ORC_COMPILE_RESULT_IS_FATAL (r)) { snprintf (msg, cap, "valid program %s: the compile after take_code + reset got fatal result 0x%x", prognames[c->prog], r); orc_program_free (p); return 1; }
  }
  *native = p->code_exec && p->code_exec != (void *) orc_executor_emulate && p->code_exec != (void *) backup_fn;
  for (i = 0; i < 64; i++) { s1[i] = (unsigned char) (i * 7 + 1); s2[i] = (unsigned char) (i * 3 + 2); d[i] = 0x5a; e[i] = 0x5a; }
  if (c->prog == 1) { float v1[8] = { 1.5f, 2.25f, -3.0f, 100.0f, 0.5f, 8.0f, -0.25f, 9.0f }, v2[8] = { 2.5f, 1.0f, 3.0f, 0.125f, 0.5f, -8.0f, 0.25f, 1.0f }; memcpy (s1, v1, 32); memcpy (s2, v2, 32); }
  if (c->prog == 4) {
    /* twelve arrays; the oracle is the emulator itself on a second set of destinations */
    static orc_int32 S[8][16], D[4][16], E[4][16];
    OrcExecutor exr;
    int k;
    for (k = 0; k < 8; k++) for (i = 0; i < 16; i++) S[k][i] = (k + 1) * 1000003 + i * 7919;
    memset (D, 0x5a, sizeof (D)); memset (E, 0x5a, sizeof (E));
    if (c->codeonly != 2) memset (ex, 0, sizeof (*ex));
    memset (&exr, 0, sizeof (exr));
    orc_executor_set_program (&exr, p);
    exr.n = n;
    for (k = 0; k < 4; k++) exr.arrays[ORC_VAR_D1 + k] = E[k];
    for (k = 0; k < 8; k++) exr.arrays[ORC_VAR_S1 + k] = S[k];
    orc_executor_emulate (&exr);
    if (c->codeonly == 1) { code = orc_program_take_code (p); orc_program_free (p); p = NULL; ex->arrays[ORC_VAR_A2] = code; }
    else if (c->codeonly == 0 || c->codeonly == 3) orc_executor_set_program (ex, p);
    ex->n = n;
    for (k = 0; k < 4; k++) ex->arrays[ORC_VAR_D1 + k] = D[k];
    for (k = 0; k < 8; k++) ex->arrays[ORC_VAR_S1 + k] = S[k];
    orc_executor_run (ex);
    calls = backup_calls - before;
    if (calls > 1) { snprintf (msg, cap, "backup function called %d times for one run", calls); goto bad; }
    if (calls == 1) { if (!c->backup) { snprintf (msg, cap, "backup ran although none was registered"); goto bad; } }
    else if (memcmp (D, E, sizeof (D))) { snprintf (msg, cap, "result of the 12-array program differs from the emulation result (d1[0]=0x%08x, emulation 0x%08x)", D[0][0], E[0][0]); goto bad; }
    if (code) orc_code_free (code);
    if (p) orc_program_free (p);
    return 0;
  }
  expected (c->prog, s1, s2, e, n);
  if (c->codeonly != 2) memset (ex, 0, sizeof (*ex));
  if (c->codeonly == 1) {
    code = orc_program_take_code (p);
    orc_program_free (p);
    p = NULL;
    ex->arrays[ORC_VAR_A2] = code;
  } else if (c->codeonly == 0 || c->codeonly == 3) {
    orc_executor_set_program (ex, p);
  }
  ex->n = n;
  ex->arrays[ORC_VAR_D1] = d; ex->arrays[ORC_VAR_S1] = s1; ex->arrays[ORC_VAR_S2] = s2;
  orc_executor_run (ex);
  calls = backup_calls - before;
  if (calls > 1) { snprintf (msg, cap, "backup function called %d times for one run", calls); goto bad; }
  if (calls == 1) {
    for (i = 0; i < n; i++) if (d[i] != 0xB7) { snprintf (msg, cap, "backup function ran but its result is not in place"); goto bad; }
    if (!c->backup) { snprintf (msg, cap, "backup ran although none was registered"); goto bad; }
  } else if (memcmp (d, e, 64)) {
    for (i = 0; i < 64 && d[i] == e[i]; i++);
    snprintf (msg, cap, "result differs from the emulation semantics at byte %d (0x%02x, expected 0x%02x; element size %d)", i, d[i], e[i], esz);
    goto bad;
  }
  if (code) orc_code_free (code);
  if (p) orc_program_free (p);
  return 0;
bad:
  if (code) orc_code_free (code);
  if (p) orc_program_free (p);
  return 1;
}

static void child (const Cfg * c, int wfd)
{
  Report R;
  char path[3][300];
  int i, fds2 = 0, fds8 = 0, maps2 = 0, maps8 = 0, native = 0;
  memset (&R, 0, sizeof (R));
  v_install_handlers ();
  alarm (120);	/* wall-clock backstop only: generous, so that a loaded machine cannot turn it into an alarm */
  unsetenv ("ORC_CODE"); unsetenv ("ORC_DEBUG"); unsetenv ("ORC_TARGET"); unsetenv ("ORC_BACKEND");
  unsetenv ("XDG_RUNTIME_DIR"); unsetenv ("HOME"); unsetenv ("TMPDIR");
  for (i = 0; i < 3; i++) {
    snprintf (path[i], sizeof (path[i]), "%s/d%d", scratch, i);
    if (c->envmask >> i & 1) setenv (i == 0 ? "XDG_RUNTIME_DIR" : i == 1 ? "HOME" : "TMPDIR", path[i], 1);
  }
  if (orc_codes[c->orc_code]) setenv ("ORC_CODE", orc_codes[c->orc_code], 1);
  f_active = 1;
  orc_init ();
  if (f_persist_on == 2) f_persist_on = 1;	/* persistent faults that start after initialisation */
  for (i = 1; i <= 8 && !R.rc; i++) {
    R.rc = one_use (c, R.msg, sizeof (R.msg), &native);
    if (i == 2) { fds2 = count_fds (); maps2 = count_maps (); }
    if (i == 8) { fds8 = count_fds (); maps8 = count_maps (); }
  }
  if (!R.rc && fds8 > fds2) { R.rc = 2; snprintf (R.msg, sizeof (R.msg), "open descriptors grow with use: %d after 2 compiles, %d after 8", fds2, fds8); }
  if (!R.rc && maps8 > maps2 + 2 && c->orc_code != 3) { R.rc = 2; snprintf (R.msg, sizeof (R.msg), "memory mappings grow with use: %d after 2 compiles, %d after 8", maps2, maps8); }
  R.ncalls = f_idx;
  R.native = native;
  memcpy (R.log, f_log, sizeof (R.log));
  if (write (wfd, &R, sizeof (R)) != sizeof (R)) _exit (3);
  _exit (0);
}

static long n_children, n_viol, n_native, n_fallback;
static char *seen[300];
static int nseen, nsamples;
static int kmax;

static const char *cfg_str (const Cfg * c)
{
  static char b[200];
  snprintf (b, sizeof (b), "env=%c%c%c ORC_CODE=%s backup=%d executor=%s program=%s", c->envmask & 1 ? 'X' : '-', c->envmask & 2 ? 'H' : '-', c->envmask & 4 ? 'T' : '-',
      orc_codes[c->orc_code] ? orc_codes[c->orc_code] : "unset", c->backup, c->codeonly == 1 ? "code-only" : c->codeonly == 2 ? "attached-before-compile" : c->codeonly == 3 ? "attached/second-compile-after-take+reset" : "attached", prognames[c->prog]);
  return b;
}

static int run_vector (const Cfg * c, const int *fail, int nfail, int persist, int persist_on, Report * R)
{
  int pfd[2], st, i;
  pid_t pid;
  if (pipe (pfd)) return -1;
  fflush (stdout);
  pid = fork ();
  if (pid == 0) {
    close (pfd[0]);
    memset (f_fail, 0, sizeof (f_fail));
    for (i = 0; i < nfail; i++) if (fail[i] < (int) sizeof (f_fail)) f_fail[fail[i]] = 1;
    f_persist = persist;
    f_persist_on = persist_on;
    child (c, pfd[1]);
  }
  close (pfd[1]);
  memset (R, 0, sizeof (*R));
  if (read (pfd[0], R, sizeof (*R)) != sizeof (*R)) R->rc = -1;
  close (pfd[0]);
  waitpid (pid, &st, 0);
  n_children++;
  if (R->rc == -1 || !WIFEXITED (st) || WEXITSTATUS (st) != 0) {
    R->rc = 3;
    snprintf (R->msg, sizeof (R->msg), "process died (%s %d)", WIFSIGNALED (st) ? "signal" : "exit", WIFSIGNALED (st) ? WTERMSIG (st) : WEXITSTATUS (st));
  }
  if (R->native) n_native++; else n_fallback++;
  return 0;
}

static void report (const Cfg * c, const char *fault, const Report * R)
{
  char key[400];
  int i;
  n_viol++;
  snprintf (key, sizeof (key), "C06|%s|%s|ORC_CODE=%s|backup=%d|%s|%s", R->rc == 3 ? "crash" : R->rc == 2 ? "leak" : "result", fault,
      orc_codes[c->orc_code] ? orc_codes[c->orc_code] : "unset", c->backup, c->codeonly == 1 ? "code-only" : c->codeonly == 2 ? "attached-before-compile" : c->codeonly == 3 ? "attached/second-compile-after-take+reset" : "attached", prognames[c->prog]);
  for (i = 0; i < nseen; i++) if (!strcmp (seen[i], key)) return;
  if (nseen < 300) seen[nseen++] = strdup (key);
  v_out ("{\"t\":\"viol\",\"key\":\"%s\",\"what\":\"%s; fault vector %s; calls %s (upper case = failed: m mkstemp, t ftruncate, x exec mmap, w write mmap, a anonymous mmap); config %s\",\"replay\":{\"config\":\"%s\",\"fault\":\"%s\"}}",
      v_esc (key), v_esc (R->msg), fault, R->log, cfg_str (c), cfg_str (c), fault);
}

static void explore_transient (const Cfg * c, int *fail, int nfail)
{
  Report R;
  char fs[80];
  size_t o = 0;
  int i, start;
  o += snprintf (fs, sizeof (fs), "idx{");
  for (i = 0; i < nfail; i++) o += snprintf (fs + o, sizeof (fs) - o, "%s%d", i ? "," : "", fail[i]);
  snprintf (fs + o, sizeof (fs) - o, "}");
  run_vector (c, fail, nfail, 0, 0, &R);
  if (R.rc) report (c, fs, &R);
  if (nsamples < 3 && nfail == 2 && (n_children % 211) == 1) { nsamples++; v_out ("{\"t\":\"sample\",\"config\":\"%s\",\"failing_call_indexes\":\"%s\",\"calls\":\"%s\",\"native\":%d}", cfg_str (c), fs, R.log, R.native); }
  if (nfail >= kmax) return;
  start = nfail ? fail[nfail - 1] + 1 : 0;
  /* only the first 40 calls are decision points for transient faults: later calls repeat the pattern of the 8 uses */
  for (i = start; i < R.ncalls && i < 40; i++) {
    fail[nfail] = i;
    explore_transient (c, fail, nfail + 1);
  }
}

int main (int argc, char **argv)
{
  int shard = v_argi (argc, argv, "--shard", 0), nshards = v_argi (argc, argv, "--nshards", 1);
  int thorough = !strcmp (v_arg (argc, argv, "--tier", "quick"), "thorough");
  long idx = 0;
  Cfg c;
  static const int envq[] = { 7, 0, 4 }, envt[] = { 7, 0, 4, 1, 2, 3, 5, 6 };
  int ei, ne = thorough ? 8 : 3;
  scratch = v_arg (argc, argv, "--scratch", "/tmp");
  kmax = thorough ? 3 : 2;
  setvbuf (stdout, NULL, _IOLBF, 0);
  {
    char p[320];
    int i;
    for (i = 0; i < 3; i++) { snprintf (p, sizeof (p), "%s/d%d", scratch, i); mkdir (p, 0700); }
  }
  for (ei = 0; ei < ne; ei++) for (c.orc_code = 0; c.orc_code < 5; c.orc_code++) for (c.backup = 0; c.backup < 2; c.backup++)
    for (c.codeonly = 0; c.codeonly < 4; c.codeonly++) for (c.prog = 0; c.prog < 8; c.prog++) {
      if (c.prog == 6 && (!c.backup || c.codeonly == 1 || c.codeonly == 3)) continue;	/* an uncompiled program runs through its backup function only */
      int fail[8], mask, on;
      c.envmask = thorough ? envt[ei] : envq[ei];
      if ((idx++ % nshards) != shard) continue;
      /* (A) transient faults by call index */
      explore_transient (&c, fail, 0);
      /* (B) persistent faults by call class */
      for (mask = 1; mask < (1 << CL_N); mask++) for (on = 1; on <= 2; on++) {
        Report R;
        char fs[40];
        snprintf (fs, sizeof (fs), "persist{%s%s%s%s%s}%s", mask & 1 ? "m" : "", mask & 2 ? "t" : "", mask & 4 ? "x" : "", mask & 8 ? "w" : "", mask & 16 ? "a" : "", on == 2 ? "@after-init" : "");
        run_vector (&c, NULL, 0, mask, on, &R);
        if (R.rc) report (&c, fs, &R);
      }
    }
  v_out ("{\"t\":\"stat\",\"vectors\":%ld,\"configs\":%ld,\"ended_native\":%ld,\"ended_fallback\":%ld,\"violations_raw\":%ld}", n_children, (idx + nshards - 1 - shard) / nshards, n_native, n_fallback, n_viol);
  return 0;
}
