/* xreg: exhaustive enumeration of registration histories (C20): application
 * opcode sets and rule sets registered in every legal order up to a depth,
 * one forked child per history (registries are append-only and process
 * global), followed by probe programs.  Differential oracle for built-in
 * behaviour against the empty history. */
#include "vcommon.h"
#include <orc/orcsse.h>
#include <orc/orcavx.h>
#include <orc/orcmmx.h>
#include <orc/orcx86insn.h>

/* ---- application opcodes: unsigned saturating 16-bit add under various names ---- */
static int emu_calls[10];
#define EMU(k) static void emu_##k (OrcOpcodeExecutor *ex, int offset, int n) { \
  int i; const orc_uint16 *a = ex->src_ptrs[0], *b = ex->src_ptrs[1]; orc_uint16 *d = ex->dest_ptrs[0]; \
  (void) offset; emu_calls[k]++; \
  for (i = 0; i < n; i++) { unsigned s = (unsigned) a[i] + b[i]; d[i] = s > 65535 ? 65535 : (orc_uint16) s; } }
EMU (0) EMU (1) EMU (2) EMU (3) EMU (4) EMU (5) EMU (6)

/* an opcode whose two sources differ in size (as mulhslw in examples/volscale.c): d = a + (sign-extended 16-bit) b.
 * Registered in every history, without code generation rules: judged under emulation, with the 16-bit operand given as
 * an array, as a constant and as a parameter. */
static int emu_mixed_calls;
static void emu_mixed (OrcOpcodeExecutor *ex, int offset, int n)
{
  int i;
  const orc_int32 *a = ex->src_ptrs[0];
  const orc_int16 *b = ex->src_ptrs[1];
  orc_int32 *d = ex->dest_ptrs[0];
  (void) offset;
  emu_mixed_calls++;
  for (i = 0; i < n; i++) d[i] = a[i] + b[i];
}
static OrcStaticOpcode setMixed[] = { { "addlwx", 0, { 4 }, { 4, 2 }, emu_mixed }, { "" } };
/* accumulator opcodes of an application: one accumulator (sum), and two accumulators written by one instruction (sum
 * and sum of squares); registered in every history without rules, judged under emulation */
static void emu_acc1 (OrcOpcodeExecutor *ex, int offset, int n)
{
  int i;
  const orc_uint32 *a = ex->src_ptrs[0];
  orc_uint32 s = 0;
  (void) offset;
  for (i = 0; i < n; i++) s += a[i];
  *(orc_uint32 *) ex->dest_ptrs[0] += s;
}
static void emu_acc2 (OrcOpcodeExecutor *ex, int offset, int n)
{
  int i;
  const orc_uint32 *a = ex->src_ptrs[0];
  orc_uint32 s = 0, q = 0;
  (void) offset;
  for (i = 0; i < n; i++) { s += a[i]; q += a[i] * a[i]; }
  *(orc_uint32 *) ex->dest_ptrs[0] += s;
  *(orc_uint32 *) ex->dest_ptrs[1] += q;
}
static OrcStaticOpcode setAcc[] = { { "accsumlx", ORC_STATIC_OPCODE_ACCUMULATOR, { 4 }, { 4 }, emu_acc1 },
  { "accsumsqlx", ORC_STATIC_OPCODE_ACCUMULATOR, { 4, 4 }, { 4 }, emu_acc2 }, { "" } };

static OrcStaticOpcode setA[] = { { "myop", 0, { 2 }, { 2, 2 }, emu_0 }, { "myop2", 0, { 2 }, { 2, 2 }, emu_1 }, { "" } };
static OrcStaticOpcode setB[] = { { "addbx", 0, { 2 }, { 2, 2 }, emu_2 }, { "" } };
static OrcStaticOpcode setC[] = { { "add", 0, { 2 }, { 2, 2 }, emu_3 }, { "" } };
static OrcStaticOpcode setD[] = { { "abcdefghijklmno", 0, { 2 }, { 2, 2 }, emu_4 }, { "" } };
/* names that extend built-in names the x86 back ends treat specially by name (resampling loads, single-copy programs) */
static OrcStaticOpcode setE[] = { { "ldresnearlx", 0, { 2 }, { 2, 2 }, emu_5 }, { "copywx", 0, { 2 }, { 2, 2 }, emu_6 }, { "" } };
static OrcStaticOpcode *sets[] = { setA, setB, setC, setE, setD };
static char *setprefix[] = { "appA", "appB", "appC", "appE", "appD" };
static const char *probe_op[] = { "myop", "addbx", "add", "ldresnearlx", "abcdefghijklmno" };
static const int probe_emu[] = { 0, 2, 3, 5, 4 };
/* a second opcode of the set that is probed as well (NULL: none) */
static const char *probe_op2[] = { NULL, NULL, NULL, "copywx", NULL };
static const int probe_emu2[] = { 0, 0, 0, 6, 0 };
#define NSETS 5

/* ---- rules ---- */
#define MAXRULES 16
static int rule_calls[MAXRULES];
static void rule_sse (OrcCompiler * p, void *user, OrcInstruction * insn)
{
  int src0 = p->vars[insn->src_args[0]].alloc, src1 = p->vars[insn->src_args[1]].alloc, dest = p->vars[insn->dest_args[0]].alloc;
  rule_calls[(int) (long) user]++;
  if (src0 != dest) orc_sse_emit_movdqa (p, src0, dest);
  orc_sse_emit_paddusw (p, src1, dest);
}
static void rule_mmx (OrcCompiler * p, void *user, OrcInstruction * insn)
{
  int src0 = p->vars[insn->src_args[0]].alloc, src1 = p->vars[insn->src_args[1]].alloc, dest = p->vars[insn->dest_args[0]].alloc;
  rule_calls[(int) (long) user]++;
  if (src0 != dest) orc_mmx_emit_movq (p, src0, dest);
  orc_mmx_emit_paddusw (p, src1, dest);
}
static void rule_avx (OrcCompiler * p, void *user, OrcInstruction * insn)
{
  int src0 = p->vars[insn->src_args[0]].alloc, src1 = p->vars[insn->src_args[1]].alloc, dest = p->vars[insn->dest_args[0]].alloc;
  int size = p->vars[insn->src_args[0]].size << p->loop_shift;
  rule_calls[(int) (long) user]++;
  if (size >= 32) orc_avx_emit_paddusw (p, src0, src1, dest);
  else orc_avx_sse_emit_paddusw (p, src0, src1, dest);
}
/* override of built-in addw: same result, recognisably different code (extra por dest,dest) */
static void over_sse (OrcCompiler * p, void *user, OrcInstruction * insn)
{
  int src0 = p->vars[insn->src_args[0]].alloc, src1 = p->vars[insn->src_args[1]].alloc, dest = p->vars[insn->dest_args[0]].alloc;
  rule_calls[(int) (long) user]++;
  if (src0 != dest) orc_sse_emit_movdqa (p, src0, dest);
  orc_sse_emit_paddw (p, src1, dest);
  orc_sse_emit_por (p, dest, dest);
}
static void over_avx (OrcCompiler * p, void *user, OrcInstruction * insn)
{
  int src0 = p->vars[insn->src_args[0]].alloc, src1 = p->vars[insn->src_args[1]].alloc, dest = p->vars[insn->dest_args[0]].alloc;
  int size = p->vars[insn->src_args[0]].size << p->loop_shift;
  rule_calls[(int) (long) user]++;
  if (size >= 32) { orc_avx_emit_paddw (p, src0, src1, dest); orc_avx_emit_por (p, dest, dest, dest); }
  else { orc_avx_sse_emit_paddw (p, src0, src1, dest); orc_avx_sse_emit_por (p, dest, dest, dest); }
}

/* an application opcode with three vector sources (d = a * b + c on 16-bit lanes) and its sse rule; registered in
 * every history */
static void emu_madd (OrcOpcodeExecutor *ex, int offset, int n)
{
  int i;
  const orc_uint16 *a = ex->src_ptrs[0], *b = ex->src_ptrs[1], *c = ex->src_ptrs[2];
  orc_uint16 *d = ex->dest_ptrs[0];
  (void) offset;
  for (i = 0; i < n; i++) d[i] = (orc_uint16) (a[i] * b[i] + c[i]);
}
static OrcStaticOpcode setMadd[] = { { "xmaddwx", 0, { 2 }, { 2, 2, 2 }, emu_madd }, { "" } };
static int madd_rule_calls;
static void rule_madd_sse (OrcCompiler * p, void *user, OrcInstruction * insn)
{
  int a = p->vars[insn->src_args[0]].alloc, b = p->vars[insn->src_args[1]].alloc, c = p->vars[insn->src_args[2]].alloc, dest = p->vars[insn->dest_args[0]].alloc;
  int tmp = orc_compiler_get_temp_reg (p);
  (void) user;
  madd_rule_calls++;
  orc_sse_emit_movdqa (p, a, tmp);
  orc_sse_emit_pmullw (p, b, tmp);
  orc_sse_emit_paddw (p, c, tmp);
  orc_sse_emit_movdqa (p, tmp, dest);
}

/* ---- history alphabet ---- */
static const char *tnames[] = { "sse", "avx", "mmx" };
/* flag requirement kinds: 0 none, 1 a flag the CPU has (SSE4.1 for sse/avx, MMX for mmx), 2 a flag the CPU lacks (SSE5 bit / 3DNOW) */
/* 3: two flags of which the CPU has one and lacks the other (not satisfied); 4: two flags the CPU has (satisfied) */
static unsigned flagval (int t, int fk)
{
  if (fk == 0) return 0;
  if (t == 2) return fk == 1 ? ORC_TARGET_MMX_MMX : fk == 2 ? ORC_TARGET_MMX_3DNOWEXT : fk == 3 ? (ORC_TARGET_MMX_MMX | ORC_TARGET_MMX_3DNOWEXT) : (ORC_TARGET_MMX_MMX | ORC_TARGET_MMX_MMXEXT);
  return fk == 1 ? ORC_TARGET_SSE_SSE4_1 : fk == 2 ? ORC_TARGET_SSE_SSE5 : fk == 3 ? (ORC_TARGET_SSE_SSE4_1 | ORC_TARGET_SSE_SSE5) : (ORC_TARGET_SSE_SSE4_1 | ORC_TARGET_SSE_SSSE3);
}
static int fk_satisfied (int fk) { return fk == 0 || fk == 1 || fk == 4; }
static const char *fk_name (int fk) { static const char *n[] = { "noflags", "have", "lack", "have+lack", "have+have" }; return n[fk]; }
typedef struct { int kind; int set; int target; int fk; } Op;	/* kind 0 set, 1 rules, 2 override */
static Op alphabet[128];
static int nalpha;
static int ntargets_used;

static const char *op_str (const Op * o)
{
  static char b[4][64];
  static int k;
  char *s = b[k = (k + 1) & 3];
  if (o->kind == 0) snprintf (s, 64, "set%c", "ABCED"[o->set]);
  else if (o->kind == 1) snprintf (s, 64, "rules(%s,set%c,%s)", tnames[o->target], "ABCED"[o->set], fk_name (o->fk));
  else snprintf (s, 64, "override(%s,%s)", tnames[o->target], fk_name (o->fk));
  return s;
}

/* ---- child: apply history, probe ---- */
typedef struct {
  int rc;
  char msg[400];
  unsigned char code_addw[3][600];
  int code_len[3];
  unsigned char code_subw[3][600];
  int sub_len[3];
} Report;

static OrcProgram *prog3 (const char *op1, const char *op2)
{
  OrcProgram *p = orc_program_new_dss (2, 2, 2);
  orc_program_set_name (p, "probe");
  if (op2) {
    orc_program_add_temporary (p, 2, "t1");
    orc_program_append_str (p, op1, "t1", "s1", "s2");
    orc_program_append_str (p, op2, "d1", "t1", "s1");
  } else orc_program_append_str (p, op1, "d1", "s1", "s2");
  return p;
}

static orc_uint16 S1v[24], S2v[24];
static orc_uint16 sat (unsigned x) { return x > 65535 ? 65535 : (orc_uint16) x; }

static int run_prog (OrcProgram * p, int emulate, orc_uint16 * d)
{
  OrcExecutor ex;
  int i;
  for (i = 0; i < 24; i++) d[i] = 0x5a5a;
  memset (&ex, 0, sizeof (ex));
  orc_executor_set_program (&ex, p);
  ex.n = 21;
  ex.arrays[ORC_VAR_D1] = d; ex.arrays[ORC_VAR_S1] = S1v; ex.arrays[ORC_VAR_S2] = S2v;
  if (emulate) orc_executor_emulate (&ex); else orc_executor_run (&ex);
  return 0;
}

static void child (const Op * hist, int nh, int wfd)
{
  Report R;
  OrcOpcodeSet *oset[NSETS] = { 0 };
  int have_set[NSETS] = { 0 };
  /* expected rule id per (target,set) and for the override: id of the latest registered rule set whose flags are satisfied */
  int exp_rule[3][NSETS], exp_over[3], nrules = 0, i, t, s, q;
  int registered_rules[3][NSETS] = { { 0 } };
  int reg_t[MAXRULES], reg_s[MAXRULES];	/* per registration: target, set (-1: override of addw) */
  unsigned reg_fl[MAXRULES];
  memset (&R, 0, sizeof (R));
  for (t = 0; t < 3; t++) { exp_over[t] = -1; for (s = 0; s < NSETS; s++) exp_rule[t][s] = -1; }
  v_install_handlers ();
  alarm (120);	/* wall-clock backstop only: generous, so that a loaded machine cannot turn it into an alarm */
  for (i = 0; i < 24; i++) { S1v[i] = (orc_uint16) (i * 3001 + 17); S2v[i] = (orc_uint16) (i * 7919 + 60000); }
  orc_opcode_register_static (setMixed, "appMixed");
  orc_opcode_register_static (setAcc, "appAcc");
  orc_opcode_register_static (setMadd, "appMadd");
  orc_rule_register (orc_rule_set_new (orc_opcode_set_get ("appMadd"), orc_target_get_by_name ("sse"), 0), "xmaddwx", rule_madd_sse, NULL);
  for (i = 0; i < nh; i++) {
    const Op *o = &hist[i];
    if (o->kind == 0) {
      orc_opcode_register_static (sets[o->set], setprefix[o->set]);
      have_set[o->set] = 1;
    } else {
      OrcTarget *tg = orc_target_get_by_name (tnames[o->target]);
      unsigned fl = flagval (o->target, o->fk);
      OrcRuleSet *rs;
      int id = nrules++;
      reg_t[id] = o->target; reg_s[id] = o->kind == 1 ? o->set : -1; reg_fl[id] = fl;
      if (o->kind == 1) {
        int k;
        rs = orc_rule_set_new (orc_opcode_set_get (setprefix[o->set]), tg, fl);
        for (k = 0; sets[o->set][k].name[0]; k++)
          orc_rule_register (rs, sets[o->set][k].name, o->target == 0 ? rule_sse : o->target == 1 ? rule_avx : rule_mmx, (void *) (long) id);
        registered_rules[o->target][o->set] = 1;
        if (fk_satisfied (o->fk)) exp_rule[o->target][o->set] = id;
      } else {
        rs = orc_rule_set_new (orc_opcode_set_get ("sys"), tg, fl);
        orc_rule_register (rs, "addw", o->target == 0 ? over_sse : over_avx, (void *) (long) id);
        if (fk_satisfied (o->fk)) exp_over[o->target] = id;
      }
    }
  }
  (void) oset; (void) registered_rules;
  /* ---- probes ---- */
#define FAIL(...) do { snprintf (R.msg, sizeof (R.msg), __VA_ARGS__); R.rc = 1; goto done; } while (0)
  for (s = 0; s < NSETS; s++) for (q = 0; q < 2; q++) {
    orc_uint16 d[24], e[24];
    OrcProgram *p;
    const char *pn = q ? probe_op2[s] : probe_op[s];
    int pe = q ? probe_emu2[s] : probe_emu[s];
    if (!pn) continue;
    if (!have_set[s]) {
      /* an unregistered extension name must not resolve to anything */
      if (s != 2 && orc_opcode_find_by_name (pn)) FAIL ("opcode %s resolves although its set was never registered", pn);
      continue;
    }
    {
      OrcStaticOpcode *o = orc_opcode_find_by_name (pn);
      if (o != &sets[s][q]) FAIL ("name %s does not resolve to the application's opcode (resolved to %s)", pn, o ? o->name : "nothing");
    }
    /* emulation uses the application's function */
    for (i = 0; i < 21; i++) e[i] = sat ((unsigned) S1v[i] + S2v[i]);
    for (i = 21; i < 24; i++) e[i] = 0x5a5a;
    p = prog3 (pn, NULL);
    if (ORC_COMPILE_RESULT_IS_FATAL (orc_program_compile_for_target (p, NULL))) FAIL ("extension program %s: fatal compile for emulation", pn);
    { int before = emu_calls[pe]; run_prog (p, 1, d); if (emu_calls[pe] == before) FAIL ("emulating %s did not call the application's emulation function", pn); }
    if (memcmp (d, e, sizeof (d))) FAIL ("emulating %s gives a wrong result", pn);
    orc_program_free (p);
    /* compile for each target: the application's rule (latest satisfied) must be used, else fallback to emulation */
    for (t = 0; t < ntargets_used; t++) {
      OrcTarget *tg = orc_target_get_by_name (tnames[t]);
      OrcCompileResult r;
      int before[MAXRULES], k, used = -1, n_used = 0, mixed;
      for (mixed = 0; mixed < 2; mixed++) {
        memcpy (before, rule_calls, sizeof (before));
        p = mixed ? prog3 (pn, "addw") : prog3 (pn, NULL);
        r = orc_program_compile_for_target (p, tg);
        used = -1; n_used = 0;
        for (k = 0; k < nrules; k++) if (rule_calls[k] != before[k] && k != exp_over[t]) { used = k; n_used++; }
        if (exp_rule[t][s] >= 0) {
          if (!ORC_COMPILE_RESULT_IS_SUCCESSFUL (r)) FAIL ("%s on %s: a satisfied application rule set exists but compilation failed (0x%x)", pn, tnames[t], r);
          if (n_used != 1 || used != exp_rule[t][s]) FAIL ("%s on %s: rule of registration #%d used, expected #%d (latest satisfied)", pn, tnames[t], used, exp_rule[t][s]);
        } else {
          if (ORC_COMPILE_RESULT_IS_SUCCESSFUL (r)) FAIL ("%s on %s: compiled natively although no satisfied rule set exists", pn, tnames[t]);
          if (ORC_COMPILE_RESULT_IS_FATAL (r)) FAIL ("%s on %s: missing rule gave a fatal result 0x%x", pn, tnames[t], r);
        }
        run_prog (p, 0, d);
        for (i = 0; i < 21; i++) e[i] = mixed ? (orc_uint16) (sat ((unsigned) S1v[i] + S2v[i]) + S1v[i]) : sat ((unsigned) S1v[i] + S2v[i]);
        if (memcmp (d, e, sizeof (d))) FAIL ("%s%s on %s computes a wrong result", pn, mixed ? "+addw" : "", tnames[t]);
        orc_program_free (p);
      }
    }
  }
  /* the same under explicit flag vectors (orc_program_compile_full): the default flags plus the flag the CPU lacks, and
   * (sse) the default flags without the flag the "have" rule sets require.  The rule set that must win is the latest
   * registration whose required flags are all in the vector that was passed - not in the target's default flags. */
  for (s = 0; s < NSETS; s++) {
    if (!have_set[s]) continue;
    for (t = 0; t < ntargets_used; t++) {
      OrcTarget *tg = orc_target_get_by_name (tnames[t]);
      unsigned def = orc_target_get_default_flags (tg), V[2];
      int nv = 0, vi;
      V[nv++] = def | flagval (t, 2);
      if (t == 0) V[nv++] = def & ~flagval (t, 1);
      for (vi = 0; vi < nv; vi++) {
        int exp = -1, k, used = -1, n_used = 0, before[MAXRULES];
        orc_uint16 d[24], e[24];
        OrcProgram *p;
        OrcCompileResult r;
        for (k = 0; k < nrules; k++) if (reg_t[k] == t && reg_s[k] == s && (reg_fl[k] & V[vi]) == reg_fl[k]) exp = k;
        memcpy (before, rule_calls, sizeof (before));
        p = prog3 (probe_op[s], NULL);
        r = orc_program_compile_full (p, tg, V[vi]);
        for (k = 0; k < nrules; k++) if (rule_calls[k] != before[k] && reg_s[k] >= 0) { used = k; n_used++; }
        if (exp >= 0) {
          if (!ORC_COMPILE_RESULT_IS_SUCCESSFUL (r)) FAIL ("%s on %s with flags 0x%x: a rule set satisfied by these flags exists (registration #%d) but compilation failed (0x%x)", probe_op[s], tnames[t], V[vi], exp, r);
          if (n_used != 1 || used != exp) FAIL ("%s on %s with flags 0x%x: rule of registration #%d used, expected #%d (latest whose flags are in the vector passed)", probe_op[s], tnames[t], V[vi], used, exp);
        } else {
          if (ORC_COMPILE_RESULT_IS_SUCCESSFUL (r)) FAIL ("%s on %s with flags 0x%x: compiled natively (registration #%d) although no rule set is satisfied by these flags", probe_op[s], tnames[t], V[vi], used);
          if (ORC_COMPILE_RESULT_IS_FATAL (r)) FAIL ("%s on %s with flags 0x%x: missing rule gave a fatal result 0x%x", probe_op[s], tnames[t], V[vi], r);
        }
        run_prog (p, 0, d);
        for (i = 0; i < 21; i++) e[i] = sat ((unsigned) S1v[i] + S2v[i]);
        for (i = 21; i < 24; i++) e[i] = 0x5a5a;
        if (memcmp (d, e, sizeof (d))) FAIL ("%s on %s with flags 0x%x computes a wrong result", probe_op[s], tnames[t], V[vi]);
        orc_program_free (p);
      }
    }
  }
  /* the mixed-size opcode under emulation: second operand as array, constant, parameter */
  {
    int kind;
    for (kind = 0; kind < 3; kind++) {
      OrcProgram *p = orc_program_new ();
      OrcExecutor ex;
      orc_int32 a[24], d[24];
      orc_int16 b[24];
      int before = emu_mixed_calls;
      for (i = 0; i < 24; i++) { a[i] = i * 100003 - 7; b[i] = (orc_int16) (i * 1237 - 9000); d[i] = 0x5a5a5a5a; }
      orc_program_set_name (p, "mixed");
      orc_program_add_destination (p, 4, "d1");
      orc_program_add_source (p, 4, "s1");
      if (kind == 0) orc_program_add_source (p, 2, "s2");
      else if (kind == 1) orc_program_add_constant (p, 2, -0x1234, "c1");
      else orc_program_add_parameter (p, 2, "p1");
      orc_program_append_str (p, "addlwx", "d1", "s1", kind == 0 ? "s2" : kind == 1 ? "c1" : "p1");
      if (ORC_COMPILE_RESULT_IS_FATAL (orc_program_compile_for_target (p, NULL))) FAIL ("mixed-size extension opcode addlwx (operand kind %d): fatal compile for emulation", kind);
      memset (&ex, 0, sizeof (ex));
      orc_executor_set_program (&ex, p);
      ex.n = 21;
      ex.arrays[ORC_VAR_D1] = d; ex.arrays[ORC_VAR_S1] = a;
      if (kind == 0) ex.arrays[ORC_VAR_S2] = b;
      if (kind == 2) orc_executor_set_param (&ex, ORC_VAR_P1, -0x1234);
      orc_executor_emulate (&ex);
      if (emu_mixed_calls == before) FAIL ("emulating addlwx did not call the application's emulation function");
      for (i = 0; i < 21; i++) {
        orc_int32 want = a[i] + (kind == 0 ? b[i] : -0x1234);
        if (d[i] != want) FAIL ("addlwx d1, s1, %s (sources of 4 and 2 bytes): element %d is 0x%x, the application's function of the operands gives 0x%x", kind == 0 ? "s2" : kind == 1 ? "c1=-0x1234" : "p1=-0x1234", i, (unsigned) d[i], (unsigned) want);
      }
      if (d[21] != 0x5a5a5a5a) FAIL ("addlwx wrote past n");
      orc_program_free (p);
    }
  }
  /* application accumulator opcodes under emulation: one and two accumulators per instruction, every assignment of
   * the accumulator variables a1..a3 to the destinations, alone and after a built-in accl into the third */
  {
    int da, db, form;
    for (form = 0; form < 3; form++) for (da = 0; da < 3; da++) for (db = 0; db < 3; db++) {
      static const char *an[3] = { "a1", "a2", "a3" };
      OrcProgram *p;
      OrcExecutor ex;
      orc_uint32 a[24], want[3] = { 0, 0, 0 }, s = 0, q = 0;
      int third = 3 - da - db;
      if (da == db) continue;
      if (form == 0 && db != (da + 1) % 3) continue;	/* one accumulator: db unused */
      for (i = 0; i < 24; i++) a[i] = (orc_uint32) i * 2654435761u + 12345u;
      for (i = 0; i < 21; i++) { s += a[i]; q += a[i] * a[i]; }
      p = orc_program_new ();
      orc_program_set_name (p, "appacc");
      orc_program_add_source (p, 4, "s1");
      orc_program_add_accumulator (p, 4, "a1"); orc_program_add_accumulator (p, 4, "a2"); orc_program_add_accumulator (p, 4, "a3");
      if (form == 2) { orc_program_append_ds_str (p, "accl", an[third], "s1"); want[third] = s; }
      if (form == 0) { orc_program_append_ds_str (p, "accsumlx", an[da], "s1"); want[da] += s; }
      else { orc_program_append_str (p, "accsumsqlx", an[da], an[db], "s1"); want[da] += s; want[db] += q; }
      if (ORC_COMPILE_RESULT_IS_FATAL (orc_program_compile_for_target (p, NULL))) FAIL ("application accumulator opcode (form %d, %s,%s): fatal compile for emulation", form, an[da], an[db]);
      memset (&ex, 0, sizeof (ex));
      orc_executor_set_program (&ex, p);
      ex.n = 21;
      ex.arrays[ORC_VAR_S1] = a;
      orc_executor_emulate (&ex);
      for (i = 0; i < 3; i++) if ((orc_uint32) ex.accumulators[i] != want[i])
        FAIL ("%s%s %s%s%s, s1 under emulation: accumulator a%d is 0x%x, the application's function gives 0x%x", form == 2 ? "accl into the third accumulator, then " : "",
            form == 0 ? "accsumlx" : "accsumsqlx", an[da], form ? ", " : "", form ? an[db] : "", i + 1, (unsigned) ex.accumulators[i], (unsigned) want[i]);
      orc_program_free (p);
    }
  }
  /* the three-source application opcode on sse and under emulation: each source position fed by an array or by a
   * temporary that an earlier built-in instruction computes */
  {
    int tpos, native;
    for (tpos = -1; tpos < 3; tpos++) for (native = 0; native < 2; native++) {
      OrcProgram *p = orc_program_new ();
      OrcExecutor ex;
      orc_uint16 A[5][24], d[24], want[24];
      int k, before = madd_rule_calls, v[3], t1, d1;
      for (k = 0; k < 5; k++) for (i = 0; i < 24; i++) A[k][i] = (orc_uint16) ((k + 2) * 1237 + i * (311 + 2 * k));
      for (i = 0; i < 24; i++) d[i] = 0x5a5a;
      orc_program_set_name (p, "madd");
      d1 = orc_program_add_destination (p, 2, "d1");
      for (k = 0; k < 5; k++) { char nm[8]; sprintf (nm, "s%d", k + 1); v[k < 3 ? k : 0] = k < 3 ? orc_program_add_source (p, 2, nm) : (orc_program_add_source (p, 2, nm), v[0]); }
      t1 = orc_program_add_temporary (p, 2, "t1");
      if (tpos >= 0) { orc_program_append_str (p, "mullw", "t1", "s4", "s5"); v[tpos] = t1; }
      orc_program_append_2 (p, "xmaddwx", 0, d1, v[0], v[1], v[2]);
      if (native) { if (!ORC_COMPILE_RESULT_IS_SUCCESSFUL (orc_program_compile_for_target (p, orc_target_get_by_name ("sse")))) FAIL ("three-source extension opcode xmaddwx (temporary in source %d) does not compile on sse", tpos); }
      else if (ORC_COMPILE_RESULT_IS_FATAL (orc_program_compile_for_target (p, NULL))) FAIL ("three-source extension opcode xmaddwx: fatal compile for emulation");
      if (native && madd_rule_calls == before) FAIL ("compiling xmaddwx on sse did not use the application's rule");
      for (i = 0; i < 21; i++) {
        orc_uint16 op[3];
        for (k = 0; k < 3; k++) op[k] = k == tpos ? (orc_uint16) (A[3][i] * A[4][i]) : A[k][i];
        want[i] = (orc_uint16) (op[0] * op[1] + op[2]);
      }
      memset (&ex, 0, sizeof (ex));
      orc_executor_set_program (&ex, p);
      ex.n = 21;
      ex.arrays[ORC_VAR_D1] = d;
      for (k = 0; k < 5; k++) ex.arrays[ORC_VAR_S1 + k] = A[k];
      if (native) orc_executor_run (&ex); else orc_executor_emulate (&ex);
      for (i = 0; i < 21; i++) if (d[i] != want[i])
        FAIL ("xmaddwx d1 <- a*b+c with %s %s: element %d is 0x%04x, the application's function of the operands gives 0x%04x", tpos < 0 ? "three array sources" : tpos == 0 ? "a = t1 (mullw s4, s5)" : tpos == 1 ? "b = t1 (mullw s4, s5)" : "c = t1 (mullw s4, s5)",
            native ? "compiled for sse with the application's rule" : "under emulation", i, d[i], want[i]);
      if (d[21] != 0x5a5a) FAIL ("xmaddwx wrote past n");
      orc_program_free (p);
    }
  }
  /* built-in programs: code and results, reported for the differential oracle */
  for (t = 0; t < 3; t++) {
    OrcTarget *tg = orc_target_get_by_name (tnames[t]);
    orc_uint16 d[24];
    int k, before[MAXRULES];
    OrcProgram *p = prog3 ("addw", NULL);
    memcpy (before, rule_calls, sizeof (before));
    if (!ORC_COMPILE_RESULT_IS_SUCCESSFUL (orc_program_compile_for_target (p, tg))) FAIL ("built-in addw no longer compiles on %s", tnames[t]);
    for (k = 0; k < nrules; k++) if (rule_calls[k] != before[k] && k != exp_over[t]) FAIL ("built-in addw on %s used rule of registration #%d", tnames[t], k);
    if (exp_over[t] >= 0 && rule_calls[exp_over[t]] == before[exp_over[t]]) FAIL ("override rule set for addw on %s (registration #%d, flags satisfied) was not used", tnames[t], exp_over[t]);
    run_prog (p, 0, d);
    for (i = 0; i < 21; i++) if (d[i] != (orc_uint16) (S1v[i] + S2v[i])) FAIL ("built-in addw on %s computes a wrong result", tnames[t]);
    R.code_len[t] = p->orccode->code_size < 600 ? p->orccode->code_size : 600;
    memcpy (R.code_addw[t], p->orccode->code, R.code_len[t]);
    if (exp_over[t] >= 0) R.code_len[t] = -1;	/* legitimately different */
    orc_program_free (p);
    p = prog3 ("subw", NULL);
    if (!ORC_COMPILE_RESULT_IS_SUCCESSFUL (orc_program_compile_for_target (p, tg))) FAIL ("built-in subw no longer compiles on %s", tnames[t]);
    run_prog (p, 0, d);
    for (i = 0; i < 21; i++) if (d[i] != (orc_uint16) (S1v[i] - S2v[i])) FAIL ("built-in subw on %s computes a wrong result", tnames[t]);
    R.sub_len[t] = p->orccode->code_size < 600 ? p->orccode->code_size : 600;
    memcpy (R.code_subw[t], p->orccode->code, R.sub_len[t]);
    orc_program_free (p);
  }
done:
  if (write (wfd, &R, sizeof (R)) != sizeof (R)) _exit (3);
  _exit (0);
}

static long n_hist, n_viol;
static int nsamples, shard, nshards, depth;
static const char *only_hist;
static long g_idx;
static Report base;
static char *seen[200];
static int nseen;

static const char *hist_str (const Op * h, int n)
{
  static char b[400];
  size_t o = 0;
  int i;
  b[0] = 0;
  for (i = 0; i < n; i++) o += snprintf (b + o, sizeof (b) - o, "%s%s", i ? " " : "", op_str (&h[i]));
  return b;
}

static int run_hist (const Op * h, int n, Report * R)
{
  int pfd[2], st;
  pid_t pid;
  if (pipe (pfd)) return -1;
  fflush (stdout);
  pid = fork ();
  if (pid == 0) { close (pfd[0]); child (h, n, pfd[1]); }
  close (pfd[1]);
  memset (R, 0, sizeof (*R));
  if (read (pfd[0], R, sizeof (*R)) != sizeof (*R)) R->rc = -1;
  close (pfd[0]);
  waitpid (pid, &st, 0);
  if (R->rc == -1 || !WIFEXITED (st) || WEXITSTATUS (st) != 0) {
    R->rc = 3;
    snprintf (R->msg, sizeof (R->msg), "process died (%s %d)", WIFSIGNALED (st) ? "signal" : "exit", WIFSIGNALED (st) ? WTERMSIG (st) : WEXITSTATUS (st));
  }
  return 0;
}

static void viol (const Op * h, int n, const char *cls, const char *msg)
{
  char key[500];
  int i;
  n_viol++;
  snprintf (key, sizeof (key), "C20|%s|%s", cls, hist_str (h, n));
  for (i = 0; i < nseen; i++) if (!strcmp (seen[i], key)) return;
  if (nseen < 200) seen[nseen++] = strdup (key);
  v_out ("{\"t\":\"viol\",\"key\":\"%s\",\"what\":\"history [%s]: %s\",\"replay\":{\"history\":\"%s\"}}", v_esc (key), hist_str (h, n), v_esc (msg), hist_str (h, n));
}

static void visit (const Op * h, int n)
{
  Report R;
  int t;
  long idx = g_idx++;
  if (only_hist) { if (strcmp (hist_str (h, n), only_hist)) return; }
  else if ((idx % nshards) != shard) return;
  run_hist (h, n, &R);
  n_hist++;
  if (R.rc) { viol (h, n, R.rc == 3 ? "crash" : "oracle", R.msg); return; }
  for (t = 0; t < 3; t++) {
    if (R.code_len[t] >= 0 && (R.code_len[t] != base.code_len[t] || memcmp (R.code_addw[t], base.code_addw[t], R.code_len[t])))
      viol (h, n, "builtin-code", "machine code of built-in addw differs from the code without any registration");
    if (R.sub_len[t] != base.sub_len[t] || memcmp (R.code_subw[t], base.code_subw[t], R.sub_len[t]))
      viol (h, n, "builtin-code", "machine code of built-in subw differs from the code without any registration");
  }
  if (nsamples < 3 && n == depth && (idx % 499) == 3) { nsamples++; v_out ("{\"t\":\"sample\",\"history\":\"%s\"}", hist_str (h, n)); }
}

static void dfs (Op * h, int n, unsigned have_sets, int *nrules_t)
{
  int a;
  visit (h, n);
  if (n == depth) return;
  for (a = 0; a < nalpha; a++) {
    const Op *o = &alphabet[a];
    unsigned hs = have_sets;
    int nr[3];
    memcpy (nr, nrules_t, sizeof (nr));
    if (o->kind == 0) { if (have_sets >> o->set & 1) continue; hs |= 1u << o->set; }
    else {
      if (o->kind == 1 && !(have_sets >> o->set & 1)) continue;
      /* stay within the rule-set capacity of the target (built-in sets: sse 4, avx 2, mmx 4) */
      if (nr[o->target] + 1 + (o->target == 1 ? 2 : 4) > ORC_N_RULE_SETS) continue;
      nr[o->target]++;
    }
    h[n] = *o;
    dfs (h, n + 1, hs, nr);
  }
}

int main (int argc, char **argv)
{
  int thorough = !strcmp (v_arg (argc, argv, "--tier", "quick"), "thorough");
  Op h[8];
  int s, t, fk, nr[3] = { 0, 0, 0 };
  shard = v_argi (argc, argv, "--shard", 0);
  nshards = v_argi (argc, argv, "--nshards", 1);
  depth = v_argi (argc, argv, "--depth", thorough ? 5 : 4);
  only_hist = v_arg (argc, argv, "--only-history", NULL);
  ntargets_used = thorough ? 3 : 2;
  setvbuf (stdout, NULL, _IOLBF, 0);
  orc_init ();
  for (s = 0; s < (thorough ? 5 : 4); s++) { alphabet[nalpha].kind = 0; alphabet[nalpha].set = s; nalpha++; }
  for (t = 0; t < ntargets_used; t++) for (s = 0; s < (thorough ? 5 : 4); s++) for (fk = 0; fk < 5; fk++) {
    if (!thorough && s > 0 && fk != 1 && fk != 2) continue;	/* quick: flag variety on set A, have/lack on the others */
    if (thorough && s > 1 && fk > 2) continue;
    alphabet[nalpha].kind = 1; alphabet[nalpha].set = s; alphabet[nalpha].target = t; alphabet[nalpha].fk = fk; nalpha++;
  }
  for (t = 0; t < 2; t++) for (fk = 0; fk < 5; fk++) { if ((fk == 1 || fk == 4) && !thorough) continue; alphabet[nalpha].kind = 2; alphabet[nalpha].target = t; alphabet[nalpha].fk = fk; nalpha++; }
  run_hist (h, 0, &base);
  if (base.rc) { v_out ("{\"t\":\"viol\",\"key\":\"C20|baseline\",\"what\":\"empty history fails: %s\",\"replay\":{}}", v_esc (base.msg)); return 0; }
  dfs (h, 0, 0, nr);
  v_out ("{\"t\":\"stat\",\"histories\":%ld,\"violations_raw\":%ld}", n_hist, n_viol);
  v_out ("{\"t\":\"max\",\"alphabet\":%d,\"space_size\":%ld}", nalpha, g_idx);
  return 0;
}
