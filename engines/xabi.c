/* xabi: generated functions honour the C calling convention (C10).  Every
 * compiled program of the enumerated space is called directly (not through
 * orc_executor_run, whose own prologue would hide a clobbered register) via an
 * assembly trampoline that seeds the callee-saved registers with sentinels and
 * MXCSR with every combination of rounding mode x FTZ x DAZ, places canaries
 * in the caller's frame, and afterwards captures registers, rsp, MXCSR, the
 * x87 tag word and RFLAGS.DF.  The executor sits flush against PROT_NONE pages. */
#include "pgen.h"
#include "vrun.h"

typedef struct {
  uint64_t rbx, rbp, r12, r13, r14, r15;	/* 0..40 */
  uint64_t rsp_before, rsp_after;		/* 48, 56 */
  uint64_t rflags;				/* 64 */
  uint32_t mxcsr;				/* 72 */
  uint32_t pad;					/* 76 */
  unsigned char fenv[32];			/* 80: fnstenv image, tag word at +8 */
  uint64_t canary_ok;				/* 112 */
} Regs;

void v_tramp (void *fn, void *arg, const Regs * in, Regs * out);
__asm__ (
  ".text\n"
  ".globl v_tramp\n"
  ".type v_tramp,@function\n"
  "v_tramp:\n"
  "  push %rbx\n  push %rbp\n  push %r12\n  push %r13\n  push %r14\n  push %r15\n"
  "  sub $24, %rsp\n"			/* keep 16-byte alignment at the call: 6 pushes + ret addr = 56, +24 = 80; then 10 pushes below = 160 -> aligned */
  "  mov %rcx, 0(%rsp)\n"		/* out */
  "  mov %rdi, 8(%rsp)\n"		/* fn */
  /* canary words in the caller-side frame (just above the callee's return address) */
  "  mov $0x5ca1ab1e0badf00d, %rax\n"
  "  push %rax\n  push %rax\n  push %rax\n  push %rax\n  push %rax\n  push %rax\n  push %rax\n  push %rax\n"
  "  ldmxcsr 72(%rdx)\n"
  "  mov 0(%rdx), %rbx\n  mov 8(%rdx), %rbp\n  mov 16(%rdx), %r12\n  mov 24(%rdx), %r13\n  mov 32(%rdx), %r14\n  mov 40(%rdx), %r15\n"
  "  mov 64(%rsp), %rcx\n"		/* out */
  "  mov %rsp, 48(%rcx)\n"
  "  mov 72(%rsp), %rax\n"		/* fn */
  "  mov %rsi, %rdi\n"
  "  cld\n"
  "  call *%rax\n"
  /* capture */
  "  mov 64(%rsp), %rcx\n"		/* if rsp is wrong this reads garbage and we crash: also a verdict */
  "  mov %rsp, 56(%rcx)\n"
  "  mov %rbx, 0(%rcx)\n  mov %rbp, 8(%rcx)\n  mov %r12, 16(%rcx)\n  mov %r13, 24(%rcx)\n  mov %r14, 32(%rcx)\n  mov %r15, 40(%rcx)\n"
  "  stmxcsr 72(%rcx)\n"
  "  pushfq\n  pop %rax\n  mov %rax, 64(%rcx)\n"
  "  cld\n"
  "  fnstenv 80(%rcx)\n"
  "  fninit\n"
  /* canaries */
  "  mov $0x5ca1ab1e0badf00d, %rax\n"
  "  xor %edx, %edx\n"
  "  cmp %rax, 0(%rsp)\n  jne 1f\n  cmp %rax, 8(%rsp)\n  jne 1f\n  cmp %rax, 16(%rsp)\n  jne 1f\n  cmp %rax, 24(%rsp)\n  jne 1f\n"
  "  cmp %rax, 32(%rsp)\n  jne 1f\n  cmp %rax, 40(%rsp)\n  jne 1f\n  cmp %rax, 48(%rsp)\n  jne 1f\n  cmp %rax, 56(%rsp)\n  jne 1f\n"
  "  mov $1, %edx\n"
  "1:\n"
  "  mov %rdx, 112(%rcx)\n"
  "  add $64, %rsp\n"
  "  add $24, %rsp\n"
  "  pop %r15\n  pop %r14\n  pop %r13\n  pop %r12\n  pop %rbp\n  pop %rbx\n"
  "  ret\n"
  ".size v_tramp,.-v_tramp\n"
);

static int shard, nshards, thorough;
static long g_idx, st_programs, st_calls, st_memchecks, st_viol, st_compiled;
static VTarget targets[4];
static int ntargets;
static char *seen[300];
static int nseen, nsamples;
static unsigned char *expage;		/* 3 pages: NONE, RW, NONE */

static void viol (OrcProgram * p, const char *target, const char *cls, const char *msg, const char *text)
{
  char key[600], sig[300];
  size_t o = 0;
  int i;
  sig[0] = 0;
  for (i = 0; i < p->n_insns && i < 3 && o < sizeof (sig) - 30; i++) o += snprintf (sig + o, sizeof (sig) - o, "%s%s", i ? "," : "", p->insns[i].opcode->name);
  if (p->n_insns > 3) snprintf (sig + o, sizeof (sig) - o, ",+%d", p->n_insns - 3);
  st_viol++;
  snprintf (key, sizeof (key), "C10|%s|%s|%s", cls, target, sig);
  for (i = 0; i < nseen; i++) if (!strcmp (seen[i], key)) return;
  if (nseen < 300) seen[nseen++] = strdup (key);
  v_out ("{\"t\":\"viol\",\"key\":\"%s\",\"what\":\"%s: %s; program: %s\",\"replay\":{\"program\":\"%s\",\"target\":\"%s\"}}", v_esc (key), target, v_esc (msg),
      v_esc (text ? text : oprog_oneline (p)), v_esc (text ? text : oprog_oneline (p)), target);
}

static void explore (OrcProgram * p, const char *text, long idx)
{
  int ti;
  st_programs++;
  for (ti = 0; ti < ntargets; ti++) {
    const VTarget *t = &targets[ti];
    OrcCompileResult r;
    int regsize = !strcmp (t->name, "avx") ? 32 : !strcmp (t->name, "sse") ? 16 : 8, V, ni, seed, place;
    int ns[6], sz = 8, i;
    char key[200];
    snprintf (key, sizeof (key), "C10|crash|%s|%s", t->name, p->n_insns ? p->insns[0].opcode->name : "-");
    v_case (idx, key, text ? text : oprog_oneline (p));
    v_watchdog (60);
    orc_program_reset (p);
    r = orc_program_compile_full (p, t->target, t->flags);
    if (!ORC_COMPILE_RESULT_IS_SUCCESSFUL (r)) continue;
    if (!p->code_exec || p->code_exec == (void *) orc_executor_emulate) continue;
    st_compiled++;
    for (i = 0; i < ORC_N_VARIABLES; i++) if (p->vars[i].size && p->vars[i].size < sz && (p->vars[i].vartype == ORC_VAR_TYPE_SRC || p->vars[i].vartype == ORC_VAR_TYPE_DEST)) sz = p->vars[i].size;
    V = regsize / sz;
    ns[0] = 0; ns[1] = 1; ns[2] = V - 1; ns[3] = V; ns[4] = 2 * V + 1; ns[5] = 4 * V + 3;
    for (ni = 0; ni < (thorough ? 6 : 5); ni++) {
      int nseeds = 16;
      if (p->constant_n > 0 && ni > 0) break;
      for (seed = 0; seed < nseeds; seed++) {
        /* quick: all 16 MXCSR seeds at n = 2V+1, seeds 0 and 15 elsewhere */
        if (!thorough && ni != 4 && seed != 0 && seed != 15) continue;
        for (place = 0; place < 2; place++) {
          VRunCfg c;
          VArena A, R;
          OrcExecutor *ex;
          Regs in, out;
          char msg[300];
          int sig;
          if (!thorough && place != (seed & 1)) continue;
          memset (&c, 0, sizeof (c));
          c.n = p->constant_n > 0 ? p->constant_n : ns[ni];
          c.m = p->is_2d ? (p->constant_m > 0 ? p->constant_m : 2) : 1;
          c.stride_extra = p->is_2d ? 8 : 0;
          c.pchoice = seed % 5;
          c.off[0] = (seed * 4) % 32 / (p->vars[0].size ? p->vars[0].size : 1) * (p->vars[0].size ? p->vars[0].size : 1);
          if (p->vars[0].alignment > p->vars[0].size) c.off[0] = 0;
          vr_arena_alloc (&A, p, &c);
          vr_arena_fill (&A, &c);
          /* executor flush against the leading (place 0) or trailing (place 1) PROT_NONE page */
          ex = (OrcExecutor *) (place == 0 ? expage + 4096 : expage + 8192 - sizeof (OrcExecutor));
          vr_exec_setup (ex, p, &A, &c);
          memset (&in, 0, sizeof (in));
          memset (&out, 0, sizeof (out));
          in.rbx = 0x1111111111111111ULL; in.rbp = 0x2222222222222222ULL; in.r12 = 0x3333333333333333ULL;
          in.r13 = 0x4444444444444444ULL; in.r14 = 0x5555555555555555ULL; in.r15 = 0x6666666666666666ULL;
          in.mxcsr = 0x1f80 | ((seed & 3) << 13) | ((seed & 4) ? 0x8000 : 0) | ((seed & 8) ? 0x0040 : 0);
          V_CONFINED (v_tramp (p->code_exec, ex, &in, &out), sig);
          st_calls++;
          if (sig) {
            snprintf (msg, sizeof (msg), "signal %d (fault address %p, executor at %p..%p) with n=%d m=%d", sig, v_sigaddr, (void *) ex, (void *) (ex + 1), c.n, c.m);
            viol (p, t->name, "fault", msg, text);
            __asm__ volatile ("fninit");
            vr_arena_free (&A);
            goto next_target;
          }
#define BAD(cls, ...) do { snprintf (msg, sizeof (msg), __VA_ARGS__); viol (p, t->name, cls, msg, text); } while (0)
          if (out.rbx != in.rbx) BAD ("callee-saved", "rbx not preserved (0x%llx) n=%d", (unsigned long long) out.rbx, c.n);
          if (out.rbp != in.rbp) BAD ("callee-saved", "rbp not preserved (0x%llx) n=%d", (unsigned long long) out.rbp, c.n);
          if (out.r12 != in.r12) BAD ("callee-saved", "r12 not preserved (0x%llx) n=%d", (unsigned long long) out.r12, c.n);
          if (out.r13 != in.r13) BAD ("callee-saved", "r13 not preserved (0x%llx) n=%d", (unsigned long long) out.r13, c.n);
          if (out.r14 != in.r14) BAD ("callee-saved", "r14 not preserved (0x%llx) n=%d", (unsigned long long) out.r14, c.n);
          if (out.r15 != in.r15) BAD ("callee-saved", "r15 not preserved (0x%llx) n=%d", (unsigned long long) out.r15, c.n);
          if (out.rsp_after != out.rsp_before) BAD ("stack-pointer", "rsp changed by %lld bytes across the call", (long long) (out.rsp_after - out.rsp_before));
          if (!out.canary_ok) BAD ("caller-stack", "words in the caller's frame above the return address were overwritten (n=%d)", c.n);
          if ((out.mxcsr & 0xffc0) != (in.mxcsr & 0xffc0)) BAD ("mxcsr", "MXCSR control bits 0x%04x on entry, 0x%04x on return (n=%d)", in.mxcsr & 0xffc0, out.mxcsr & 0xffc0, c.n);
          if (out.rflags & (1 << 10)) BAD ("direction-flag", "direction flag set on return");
          { unsigned short tag; memcpy (&tag, out.fenv + 8, 2); if (tag != 0xffff) BAD ("x87-mmx-state", "x87/MMX register state not empty on return (tag word 0x%04x, n=%d)", tag, c.n); }
          /* memory: outside elements 0..n-1 of the destination rows, the array mappings (leading/trailing bytes, row
           * gaps, sources) are as they were filled; the executor entered with the scratch fields an earlier, longer
           * call would have left */
          {
            char m2[240];
            vr_arena_alloc (&R, p, &c);
            vr_arena_fill (&R, &c);
            if (vr_untouched (&A, &R, &c, p, m2, sizeof (m2))) BAD ("memory", "%s; n=%d m=%d first-destination offset %d", m2, c.n, c.m, c.off[0]);
            vr_arena_free (&R);
            st_memchecks++;
          }
          vr_arena_free (&A);
        }
      }
    }
    if (nsamples < 3 && (idx % 1777) == 2) { nsamples++; v_out ("{\"t\":\"sample\",\"program\":\"%s\",\"target\":\"%s\",\"mxcsr_seeds\":16,\"n_values\":[0,1,%d,%d,%d]}", v_esc (text ? text : oprog_oneline (p)), t->name, V - 1, V, 2 * V + 1); }
next_target:;
  }
}

static void on_prog (VProg * vp, void *user)
{
  long idx = g_idx++;
  char text[4096];
  OrcProgram *p;
  (void) user;
  if (idx < *(long *) user || (idx % nshards) != shard) return;
  vprog_text (vp, text, sizeof (text));
  p = vprog_build (vp);
  explore (p, text, idx);
  orc_program_free (p);
}

static const char *g_levels, *g_corpus;
static void worker (long start, void *user)
{
  (void) user;
  g_idx = 0;
  orc_init ();
  v_ops_init ();
  v_install_handlers ();
  ntargets = v_get_targets (targets, "avx,sse,mmx");
  expage = mmap (NULL, 3 * 4096, PROT_NONE, MAP_PRIVATE | MAP_ANONYMOUS, -1, 0);
  mprotect (expage + 4096, 4096, PROT_READ | PROT_WRITE);
  if (strstr (g_levels, "L1")) pgen_L1 (on_prog, &start, PG_INT | PG_FLOAT);
  if (strstr (g_levels, "L3")) { pgen_L3 (on_prog, &start, PG_INT); pgen_L3 (on_prog, &start, PG_FLOAT); }
  if (strstr (g_levels, "L5")) pgen_L5 (on_prog, &start);
  if (strstr (g_levels, "L6")) pgen_L6 (on_prog, &start, PG_INT | PG_FLOAT);
  if (strstr (g_levels, "L4") && g_corpus) {
    char buf[2048], *fn, *save;
    strncpy (buf, g_corpus, sizeof (buf) - 1); buf[sizeof (buf) - 1] = 0;
    for (fn = strtok_r (buf, ":", &save); fn; fn = strtok_r (NULL, ":", &save)) {
      FILE *f = fopen (fn, "rb");
      static char code[1 << 20];
      size_t n;
      OrcProgram **progs = NULL;
      int np, i;
      if (!f) continue;
      n = fread (code, 1, sizeof (code) - 1, f); code[n] = 0; fclose (f);
      np = orc_parse (code, &progs);
      for (i = 0; i < np; i++) { long idx = g_idx++; if (idx >= start && (idx % nshards) == shard) explore (progs[i], NULL, idx); }
    }
  }
  v_out ("{\"t\":\"stat\",\"programs\":%ld,\"compiled\":%ld,\"calls\":%ld,\"memory_checks\":%ld,\"violations_raw\":%ld}", st_programs, st_compiled, st_calls, st_memchecks, st_viol);
  v_out ("{\"t\":\"max\",\"space_size\":%ld}", g_idx);
}

int main (int argc, char **argv)
{
  shard = v_argi (argc, argv, "--shard", 0);
  nshards = v_argi (argc, argv, "--nshards", 1);
  thorough = !strcmp (v_arg (argc, argv, "--tier", "quick"), "thorough");
  g_levels = v_arg (argc, argv, "--levels", "L1");
  g_corpus = v_arg (argc, argv, "--corpus", NULL);
  v_supervise (worker, NULL, "C10");
  return 0;
}
