/* xrefprog: multi-instruction programs under emulation against a program-level reference interpreter (C02).
 *
 * The single-opcode leg (xemu) checks what one opcode computes.  What a *program* computes also depends on code all
 * execution paths share - the rewriting of a program into loads, stores and scalar broadcasts - so emulation, native
 * code and generated C can agree with each other and still be wrong.  Here the program descriptor itself (not the
 * rewritten instruction list) is interpreted element by element with the per-opcode reference of ref/orcref.h:
 * a scalar operand (constant or parameter) is the value truncated to the lane width of the instruction that uses it,
 * x2/x4 apply the opcode to each lane, temporaries carry the value of the element.  The destination arrays must be
 * byte-identical to what orc_executor_emulate leaves.
 *
 * Families: L2 (every size-compatible opcode pair), L3 (chains), and LS - one scalar (parameter or named constant)
 * feeding two instructions of different lane width and prefix, in both orders. */
#include "pgen.h"
#include "../ref/orcref.h"

static int shard, nshards;
static long g_idx, st_programs, st_skipped, st_elements, st_viol;
static char *seen[300];
static int nseen;
#define N 23

static void viol (const VProg * vp, const char *cls, const char *msg)
{
  char key[300], sig[160];
  size_t o = 0;
  int i;
  for (i = 0; i < vp->ni && o < sizeof (sig) - 24; i++) o += snprintf (sig + o, sizeof (sig) - o, "%s%s%s", i ? "," : "", (vp->in[i].flags & ORC_INSTRUCTION_FLAG_X2) ? "x2." : (vp->in[i].flags & ORC_INSTRUCTION_FLAG_X4) ? "x4." : "", vp->in[i].op);
  st_viol++;
  snprintf (key, sizeof (key), "C02|program|%s|%s", cls, sig);
  for (i = 0; i < nseen; i++) if (!strcmp (seen[i], key)) return;
  if (nseen < 300) seen[nseen++] = strdup (key);
  v_out ("{\"t\":\"viol\",\"key\":\"%s\",\"what\":\"%s; program: %s\",\"replay\":{\"program\":\"%s\"}}", v_esc (key), v_esc (msg), v_esc (vprog_oneline (vp)), v_esc (vprog_oneline (vp)));
}

static uint64_t rd (const unsigned char *p, int size) { uint64_t v = 0; memcpy (&v, p, size); return v; }
static void wr (unsigned char *p, int size, uint64_t v) { memcpy (p, &v, size); }

static int small_param[V_MAXV];	/* parameter used as the scalar operand of a shift-like opcode: kept inside the defined range */
static uint64_t param_value (int k, int size)
{
  if (small_param[k]) return 3;
  /* bytes and halves all different, bit 31 of the low word and bit 7/15 set */
  static const uint64_t pv[8] = { 0x8123456789abcdefULL, 0x00000000fedc8a91ULL, 0x7fffffff80000001ULL, 0x0102030485868788ULL,
    0xffffffff00000003ULL, 0x00000001ffff8000ULL, 0x8000000000000080ULL, 0x00000000000000ffULL };
  return size >= 8 ? pv[k & 7] : (pv[k & 7] & ref_mask (size));
}

static void on_prog (VProg * vp, void *user)
{
  long idx = g_idx++;
  OrcProgram *p;
  OrcExecutor ex;
  unsigned char *E[V_MAXV] = { 0 }, *R[V_MAXV] = { 0 };
  uint64_t tval[V_MAXV];
  uint64_t asum[V_MAXV] = { 0 };
  int i, k, e, np = 0, bad = 0;
  char msg[400];
  (void) user;
  if ((idx % nshards) != shard) return;
  if (vp->is2d) { st_skipped++; return; }
  for (i = 0; i < vp->ni; i++) {
    const OrcStaticOpcode *o = orc_opcode_find_by_name (vp->in[i].op);
    uint64_t d, d2;
    int cls;
    if (!o || (o->flags & (ORC_STATIC_OPCODE_LOAD | ORC_STATIC_OPCODE_STORE)) || op_is_float (o)) { st_skipped++; return; }
    if (o->flags & ORC_STATIC_OPCODE_ACCUMULATOR) continue;	/* accw, accl, accsadubl: summed below */
    if (!ref_eval (o->name, o->dest_size[0], o->dest_size[1], o->src_size[0], o->src_size[1], 1, 1, &d, &d2, &cls)) { st_skipped++; return; }
  }
  memset (small_param, 0, sizeof (small_param));
  for (i = 0; i < vp->ni; i++) {
    const OrcStaticOpcode *o = orc_opcode_find_by_name (vp->in[i].op);
    int nd = op_ndst (o), s;
    if (!(o->flags & ORC_STATIC_OPCODE_SCALAR)) continue;
    for (s = 1; s < op_nsrc (o); s++) {
      int vi = vp->in[i].args[nd + s], q, pk = 0;
      if (vp->v[vi].kind != VK_P) continue;
      for (q = 0; q < vi; q++) if (vp->v[q].kind == VK_P) pk++;
      small_param[pk] = 1;
    }
  }
  { char key[200]; snprintf (key, sizeof (key), "C02|program|crash|%s", vp->name); v_case (idx, key, vprog_oneline (vp)); }
  v_watchdog (60);
  p = vprog_build (vp);
  if (ORC_COMPILE_RESULT_IS_FATAL (orc_program_compile_for_target (p, NULL)) || !p->orccode) { st_skipped++; orc_program_free (p); return; }
  st_programs++;
  memset (&ex, 0, sizeof (ex));
  orc_executor_set_program (&ex, p);
  ex.n = N;
  for (i = 0; i < vp->nv; i++) {
    const VVar *v = &vp->v[i];
    if (v->kind == VK_S || v->kind == VK_D) {
      E[i] = malloc ((size_t) N * v->size + 16);
      R[i] = malloc ((size_t) N * v->size + 16);
      for (k = 0; k < N * v->size; k++) E[i][k] = (unsigned char) (v_hash64 (&k, sizeof (k), (uint64_t) (i * 131 + v->size)) >> 13);
      /* boundary patterns in the first elements */
      if (v->size <= 8) { wr (E[i], v->size, ref_mask (v->size)); if (N > 1) wr (E[i] + v->size, v->size, (uint64_t) 1 << (v->size * 8 - 1)); if (N > 2) wr (E[i] + 2 * v->size, v->size, 0); }
      memcpy (R[i], E[i], (size_t) N * v->size + 16);
      ex.arrays[v->idx] = E[i];
    } else if (v->kind == VK_P) {
      uint64_t pvv = param_value (np++, v->size);
      if (v->size == 8) orc_executor_set_param_int64 (&ex, v->idx, (orc_int64) pvv);
      else orc_executor_set_param (&ex, v->idx, (int) (int32_t) (v->size == 4 ? pvv : (uint64_t) ref_sx (pvv, v->size)));
    }
  }
  orc_executor_emulate (&ex);
  /* ---- reference ---- */
  for (e = 0; e < N && !bad; e++) {
    int pk = 0;
    uint64_t pval[V_MAXV];
    for (i = 0; i < vp->nv; i++) if (vp->v[i].kind == VK_P) pval[i] = param_value (pk++, vp->v[i].size);
    for (i = 0; i < vp->ni && !bad; i++) {
      const VInsn *in = &vp->in[i];
      const OrcStaticOpcode *o = orc_opcode_find_by_name (in->op);
      int mult = (in->flags & ORC_INSTRUCTION_FLAG_X2) ? 2 : (in->flags & ORC_INSTRUCTION_FLAG_X4) ? 4 : 1;
      int nd = op_ndst (o), ns = op_nsrc (o), lane, s;
      uint64_t src[3] = { 0, 0, 0 }, out[2] = { 0, 0 };
      int scalar_src[3] = { 0, 0, 0 };
      if (o->flags & ORC_STATIC_OPCODE_ACCUMULATOR) {
        /* the accumulator adds, from zero and modulo its width, the source element (accsadubl: |a - b| of bytes) */
        uint64_t a0, b0 = 0;
        const VVar *v0 = &vp->v[in->args[1]];
        a0 = (v0->kind == VK_S || v0->kind == VK_D) ? rd (R[in->args[1]] + (size_t) e * v0->size, v0->size) : v0->kind == VK_T ? tval[in->args[1]] : v0->kind == VK_C ? (uint64_t) v0->cval : pval[in->args[1]];
        if (ns > 1) {
          const VVar *v1 = &vp->v[in->args[2]];
          b0 = (v1->kind == VK_S || v1->kind == VK_D) ? rd (R[in->args[2]] + (size_t) e * v1->size, v1->size) : v1->kind == VK_T ? tval[in->args[2]] : v1->kind == VK_C ? (uint64_t) v1->cval : pval[in->args[2]];
        }
        if (mult != 1) { bad = -1; break; }
        if (!strcmp (o->name, "accsadubl")) { int dd = (int) (a0 & 0xff) - (int) (b0 & 0xff); asum[in->args[0]] += (uint64_t) (dd < 0 ? -dd : dd); }
        else asum[in->args[0]] += a0 & ref_mask (o->src_size[0]);
        continue;
      }
      for (s = 0; s < ns && s < 3; s++) {
        const VVar *v = &vp->v[in->args[nd + s]];
        int vi = in->args[nd + s];
        if (v->kind == VK_S || v->kind == VK_D) src[s] = rd (R[vi] + (size_t) e * v->size, v->size);
        else if (v->kind == VK_T) src[s] = tval[vi];
        else { src[s] = v->kind == VK_C ? (uint64_t) v->cval : pval[vi]; scalar_src[s] = 1; }
      }
      for (lane = 0; lane < mult; lane++) {
        uint64_t a[3], d = 0, d2 = 0;
        int cls;
        for (s = 0; s < ns && s < 3; s++) {
          int ss = o->src_size[s];
          if (scalar_src[s] || ((o->flags & ORC_STATIC_OPCODE_SCALAR) && s >= 1)) a[s] = src[s] & ref_mask (ss);	/* the same scalar for every lane */
          else a[s] = (src[s] >> (lane * ss * 8)) & ref_mask (ss);
        }
        if (ns > 2) { bad = -1; break; }
        ref_eval (o->name, o->dest_size[0], o->dest_size[1], o->src_size[0], ns > 1 ? o->src_size[1] : 0, a[0], ns > 1 ? a[1] : 0, &d, &d2, &cls);
        if (cls != REF_EXACT) { bad = -1; break; }
        out[0] |= (d & ref_mask (o->dest_size[0])) << (lane * o->dest_size[0] * 8);
        if (nd > 1) out[1] |= (d2 & ref_mask (o->dest_size[1])) << (lane * o->dest_size[1] * 8);
      }
      if (bad) break;
      for (k = 0; k < nd; k++) {
        int vi = in->args[k];
        const VVar *v = &vp->v[vi];
        if (v->kind == VK_T) tval[vi] = out[k];
        else if (v->kind == VK_D) wr (R[vi] + (size_t) e * v->size, v->size, out[k]);
      }
    }
  }
  if (bad < 0) st_skipped++;
  else {
    for (i = 0; i < vp->nv; i++) if (vp->v[i].kind == VK_D) {
      int sz = vp->v[i].size;
      st_elements += N;
      for (e = 0; e < N; e++) if (memcmp (E[i] + (size_t) e * sz, R[i] + (size_t) e * sz, sz)) {
        char nm[16];
        vprog_varname (vp, i, nm);
        snprintf (msg, sizeof (msg), "emulation leaves 0x%llx in %s[%d], the reference interpretation of the program gives 0x%llx (element size %d, n=%d)",
            (unsigned long long) rd (E[i] + (size_t) e * sz, sz), nm, e, (unsigned long long) rd (R[i] + (size_t) e * sz, sz), sz, N);
        viol (vp, "value", msg);
        break;
      }
    }
  }
  if (bad >= 0) for (i = 0; i < vp->nv; i++) if (vp->v[i].kind == VK_A) {
    uint64_t m = vp->v[i].size == 2 ? 0xffff : 0xffffffffu;
    unsigned got = (unsigned) ex.accumulators[vp->v[i].idx - ORC_VAR_A1];
    st_elements += N;
    if (((uint64_t) got & m) != (asum[i] & m)) {
      char nm[16];
      vprog_varname (vp, i, nm);
      snprintf (msg, sizeof (msg), "emulation leaves 0x%x in accumulator %s, the reference sum modulo 2^%d is 0x%llx (n=%d)", got, nm, vp->v[i].size * 8, (unsigned long long) (asum[i] & m), N);
      viol (vp, "value", msg);
    }
  }
  for (i = 0; i < vp->nv; i++) { free (E[i]); free (R[i]); }
  orc_program_free (p);
}

/* LS: one scalar, two lane widths */
static void family_LS (void)
{
  static const char *first[] = { "addb", "addw", "addl", "addq", "xorb", "subw", "andl" };
  static const int fsz[] = { 1, 2, 4, 8, 1, 2, 4 };
  int fi, fm, oi, sk, order;
  long count = 0;
  for (fi = 0; fi < 7; fi++) for (fm = 1; fm <= 4; fm *= 2) {
    if (fsz[fi] * fm > 8) continue;
    for (oi = 0; oi < v_nops; oi++) for (sk = 0; sk < 2; sk++) for (order = 0; order < 2; order++) {
      const OrcStaticOpcode *o = &v_ops[oi];
      VProg p;
      int d1, d2, s1, s2, sc, ssz;
      if (o->flags & (ORC_STATIC_OPCODE_LOAD | ORC_STATIC_OPCODE_STORE | ORC_STATIC_OPCODE_ACCUMULATOR | ORC_STATIC_OPCODE_SCALAR)) continue;
      if (op_is_float (o) || op_nsrc (o) != 2 || o->dest_size[1]) continue;
      if (o->src_size[1] == fsz[fi] && fm == 1) continue;	/* same width, no prefix: nothing to confuse */
      memset (&p, 0, sizeof (p));
      d1 = vprog_addvar (&p, VK_D, fsz[fi] * fm);
      s1 = vprog_addvar (&p, VK_S, fsz[fi] * fm);
      d2 = vprog_addvar (&p, VK_D, o->dest_size[0]);
      s2 = vprog_addvar (&p, VK_S, o->src_size[0]);
      ssz = o->src_size[1] > fsz[fi] ? o->src_size[1] : fsz[fi];
      sc = vprog_addvar (&p, sk ? VK_C : VK_P, ssz);
      if (sk) p.v[sc].cval = (int64_t) (ssz == 8 ? 0x0102030485868788LL : ssz == 4 ? 0x85868788LL : ssz == 2 ? 0x8788 : 0x88);
      else if (ssz == 8) p.v[sc].ptype = ORC_PARAM_TYPE_INT64;
      if (order == 0) {
        vprog_addinsn (&p, first[fi], fm == 2 ? ORC_INSTRUCTION_FLAG_X2 : fm == 4 ? ORC_INSTRUCTION_FLAG_X4 : 0, 3, d1, s1, sc, -1);
        vprog_addinsn (&p, o->name, 0, 3, d2, s2, sc, -1);
      } else {
        vprog_addinsn (&p, o->name, 0, 3, d2, s2, sc, -1);
        vprog_addinsn (&p, first[fi], fm == 2 ? ORC_INSTRUCTION_FLAG_X2 : fm == 4 ? ORC_INSTRUCTION_FLAG_X4 : 0, 3, d1, s1, sc, -1);
      }
      pg_name (&p, "LS", count);
      count++;
      on_prog (&p, NULL);
    }
  }
}

static const char *g_levels;
static void worker (long start, void *user)
{
  (void) user; (void) start;
  g_idx = 0;
  orc_init ();
  v_ops_init ();
  if (strstr (g_levels, "LS")) family_LS ();
  if (strstr (g_levels, "L2")) pgen_L2 (on_prog, NULL, PG_INT);
  if (strstr (g_levels, "L3")) pgen_L3 (on_prog, NULL, PG_INT);
  if (strstr (g_levels, "L1")) pgen_L1 (on_prog, NULL, PG_INT);
  if (strstr (g_levels, "L5")) pgen_L5 (on_prog, NULL);
  if (strstr (g_levels, "L6")) pgen_L6 (on_prog, NULL, PG_INT);
  v_out ("{\"t\":\"stat\",\"ref_programs\":%ld,\"ref_programs_outside_the_interpreter\":%ld,\"ref_elements_compared\":%ld,\"violations_raw\":%ld}", st_programs, st_skipped, st_elements, st_viol);
  v_out ("{\"t\":\"max\",\"ref_space_size\":%ld}", g_idx);
}

int main (int argc, char **argv)
{
  shard = v_argi (argc, argv, "--shard", 0);
  nshards = v_argi (argc, argv, "--nshards", 1);
  g_levels = v_arg (argc, argv, "--levels", "LS,L2,L3");
  v_supervise (worker, NULL, "C02");
  return 0;
}
