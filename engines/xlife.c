/* xlife: exhaustive enumeration of legal object-lifecycle sequences (C16) on
 * the real library under AddressSanitizer.  A small reference state machine
 * decides which operation is legal in which state; every legal sequence up to
 * the depth bound is executed in a forked child, closed (everything still
 * held is freed) and repeated; live heap bytes, code-memory chunks, regions
 * and open descriptors after 4 repetitions must equal those after 2. */
#include "vcommon.h"
#include <dirent.h>
#include <orc/orcverif.h>
extern size_t __sanitizer_get_current_allocated_bytes (void);

enum {
  OP_NEW, OP_ADD_OK, OP_ADD_MISMATCH, OP_ADD_FLOAT, OP_ADD_UNKNOWN, OP_ADD_LATEFAIL,
  OP_COMPILE_DEFAULT, OP_COMPILE_SSE, OP_COMPILE_MMX, OP_COMPILE_C,
  OP_TAKE, OP_RESET, OP_RUN, OP_EMULATE,
  OP_EX_NEW, OP_EX_RUN, OP_EX_EMULATE, OP_EX_FREE,
  OP_RUN_CODE, OP_EMULATE_CODE, OP_FREE_CODE, OP_FREE_PROGRAM, OP_NEW_BC, OP_N
};
static const char *opname[] = {
  "new", "add_ok", "add_mismatch", "add_float", "add_unknown", "add_latefail",
  "compile_default", "compile_sse", "compile_mmx", "compile_c",
  "take_code", "reset", "run", "emulate",
  "ex_new", "ex_run", "ex_emulate", "ex_free",
  "run_code", "emulate_code", "free_code", "free_program", "new_from_bytecode"
};

/* ---- reference model (legality + expectations) ---- */
typedef struct {
  int prog;			/* program object exists */
  int ninsn, last_float, has_float, has_mismatch, has_unknown, has_late;
  int compiled;			/* 0 never, 1 non-fatal result, 2 fatal result */
  int runnable;			/* last compile non-fatal, no take/reset since */
  int sticky;			/* a failed compile leaves its error on the program until reset: further compiles are refused */
  int ex;			/* executor exists; 2 = dangling (program freed) */
  int code;			/* detached code object live */
  int code_float;
} Model;

static int legal (const Model * m, int op)
{
  switch (op) {
    case OP_NEW: case OP_NEW_BC: return !m->prog;
    case OP_ADD_OK: case OP_ADD_MISMATCH: case OP_ADD_FLOAT: case OP_ADD_UNKNOWN: case OP_ADD_LATEFAIL:
      /* also after a clean compile: the program is extended and has to be compiled again before it is run */
      if (m->compiled) return m->prog && m->compiled == 1 && !m->sticky && m->ninsn < 2 && op != OP_ADD_UNKNOWN;
      return m->prog && m->ninsn < 2 && !(op == OP_ADD_UNKNOWN && m->has_unknown);
    case OP_COMPILE_DEFAULT: case OP_COMPILE_SSE: case OP_COMPILE_MMX: case OP_COMPILE_C:
      return m->prog && m->ninsn > 0;
    case OP_TAKE: return m->prog && m->runnable && !m->code;
    case OP_RESET: return m->prog && m->compiled;
    case OP_RUN: case OP_EMULATE: return m->prog && m->runnable;
    case OP_EX_NEW: return m->prog && !m->ex;
    case OP_EX_RUN: case OP_EX_EMULATE: return m->ex == 1 && m->prog && m->runnable;
    case OP_EX_FREE: return m->ex != 0;
    case OP_RUN_CODE: case OP_EMULATE_CODE: case OP_FREE_CODE: return m->code;
    case OP_FREE_PROGRAM: return m->prog;
  }
  return 0;
}

/* model transition; result_class: observed compile result class (0 ok, 1 non-fatal failure, 2 fatal) */
static void step_model (Model * m, int op, int result_class)
{
  switch (op) {
    case OP_NEW: m->prog = 1; m->sticky = 0; m->ninsn = 0; m->last_float = m->has_float = m->has_mismatch = m->has_unknown = m->has_late = 0; m->compiled = 0; m->runnable = 0; break;
    case OP_NEW_BC: m->prog = 1; m->sticky = 0; m->ninsn = 2; m->last_float = m->has_float = m->has_mismatch = m->has_unknown = m->has_late = 0; m->compiled = 0; m->runnable = 0; break;
    case OP_ADD_OK: m->ninsn++; m->last_float = 0; m->runnable = 0; break;
    case OP_ADD_MISMATCH: m->ninsn++; m->has_mismatch = 1; m->runnable = 0; break;
    case OP_ADD_FLOAT: m->ninsn++; m->last_float = 1; m->has_float = 1; m->runnable = 0; break;
    /* an instruction every x86 back end has a rule for, but whose rule gives up while emitting code (offset not a constant):
     * the compile fails late, non-fatally; the result is d1 = s1 (offset parameter 0) */
    case OP_ADD_LATEFAIL: m->ninsn++; m->last_float = 2; m->has_late = 1; m->runnable = 0; break;
    case OP_ADD_UNKNOWN: m->has_unknown = 1; break;
    case OP_COMPILE_DEFAULT: case OP_COMPILE_SSE: case OP_COMPILE_MMX: case OP_COMPILE_C:
      m->compiled = result_class == 2 ? 2 : 1;
      /* the C target is not an executable back end: its result is source text, nothing to run */
      m->runnable = result_class != 2 && op != OP_COMPILE_C;
      if (result_class != 0) m->sticky = 1;
      break;
    case OP_TAKE: m->code = 1; m->code_float = m->last_float; m->runnable = 0; break;
    case OP_RESET: m->runnable = 0; m->sticky = 0; m->has_unknown = 0;	/* reset drops the recorded construction error; the refused instruction was never added */
      break;
    case OP_EX_NEW: m->ex = 1; break;
    case OP_EX_FREE: m->ex = 0; break;
    case OP_FREE_CODE: m->code = 0; break;
    case OP_FREE_PROGRAM: m->prog = 0; m->runnable = 0; m->compiled = 0; if (m->ex) m->ex = 2; break;
  }
}

/* ---- implementation side ---- */
static OrcProgram *P;
static OrcExecutor *E;
static OrcCode *C;
static char failmsg[400];

static const orc_int32 S1[8] = { 0x3fc00000, 0x40100000, 0x3f800000, 0x40400000, 0x41200000, 0x3f000000, 0x40a00000, 0x42c80000 };	/* 1.5 2.25 1 3 10 .5 5 100 */
static const orc_int32 S2[8] = { 0x40200000, 0x3f800000, 0x40000000, 0x3fc00000, 0x41a00000, 0x3e800000, 0x40e00000, 0x3f800000 };	/* 2.5 1 2 1.5 20 .25 7 1 */

static int check_result (const orc_int32 * d, int isfloat, const char *what)
{
  int i;
  for (i = 0; i < 7; i++) {
    orc_int32 want;
    if (isfloat == 2) want = S1[i];
    else if (isfloat) { union { float f; orc_int32 i; } a, b, r; a.i = S1[i]; b.i = S2[i]; r.f = a.f + b.f; want = r.i; }
    else want = (orc_int32) ((orc_uint32) S1[i] + (orc_uint32) S2[i]);
    if (d[i] != want) { snprintf (failmsg, sizeof (failmsg), "%s: element %d is 0x%08x, expected 0x%08x", what, i, d[i], want); return 0; }
  }
  if (d[7] != 0x5a5a5a5a) { snprintf (failmsg, sizeof (failmsg), "%s: wrote past n", what); return 0; }
  return 1;
}

static void ex_setup (OrcExecutor * ex, orc_int32 * d)
{
  int i;
  for (i = 0; i < 8; i++) d[i] = 0x5a5a5a5a;
  ex->n = 7;
  ex->arrays[ORC_VAR_D1] = d;
  ex->arrays[ORC_VAR_S1] = (void *) S1;
  ex->arrays[ORC_VAR_S2] = (void *) S2;
}

static OrcBytecode *g_bc;
/* returns 0 ok / 1 failure (failmsg); *rclass gets the compile result class */
static int do_op (int op, const Model * m, int *rclass)
{
  orc_int32 d[8];
  OrcCompileResult r;
  OrcTarget *t;
  *rclass = 0;
  switch (op) {
    case OP_NEW:
      P = orc_program_new_dss (4, 4, 4);
      orc_program_add_parameter (P, 4, "p1");
      /* every temporary slot taken (named, unused): all 16 names have to be released with the program */
      { int k; char nm[8]; for (k = 0; k < 16; k++) { sprintf (nm, "t%d", k + 1); orc_program_add_temporary (P, 4, nm); } }
      orc_program_set_name (P, "life");
      break;
    case OP_NEW_BC:
      /* the constructor generated wrappers use: the whole program (name, arrays, parameter, one addl) from bytecode */
      P = orc_program_new_from_static_bytecode (g_bc->bytecode);
      if (!P) { snprintf (failmsg, sizeof (failmsg), "orc_program_new_from_static_bytecode returned NULL"); return 1; }
      break;
    case OP_ADD_OK: orc_program_append_str (P, "addl", "d1", "s1", "s2"); break;
    case OP_ADD_MISMATCH: orc_program_append_str (P, "addw", "d1", "s1", "s2"); break;
    case OP_ADD_FLOAT: orc_program_append_str (P, "addf", "d1", "s1", "s2"); break;
    case OP_ADD_LATEFAIL: orc_program_append_str (P, "loadoffl", "d1", "s1", "p1"); break;
    case OP_ADD_UNKNOWN: orc_program_append_str (P, "nosuchop", "d1", "s1", "s2"); break;
    case OP_COMPILE_DEFAULT: case OP_COMPILE_SSE: case OP_COMPILE_MMX: case OP_COMPILE_C:
      if (op == OP_COMPILE_DEFAULT) r = orc_program_compile (P);
      else {
        t = orc_target_get_by_name (op == OP_COMPILE_SSE ? "sse" : op == OP_COMPILE_MMX ? "mmx" : "c");
        r = orc_program_compile_for_target (P, t);
      }
      *rclass = ORC_COMPILE_RESULT_IS_FATAL (r) ? 2 : ORC_COMPILE_RESULT_IS_SUCCESSFUL (r) ? 0 : 1;
      if ((m->has_mismatch || m->has_unknown) && *rclass != 2) { snprintf (failmsg, sizeof (failmsg), "compile of an invalid program returned 0x%x (not fatal)", r); return 1; }
      if (*rclass != 2 && !P->orccode && op != OP_COMPILE_C) { snprintf (failmsg, sizeof (failmsg), "non-fatal compile result 0x%x left no code object", r); return 1; }
      break;
    case OP_TAKE: C = orc_program_take_code (P); if (!C) { snprintf (failmsg, sizeof (failmsg), "take_code returned NULL after a non-fatal compile"); return 1; } break;
    case OP_RESET: orc_program_reset (P); break;
    case OP_RUN: case OP_EMULATE: {
      OrcExecutor *ex = orc_executor_new (P);
      ex_setup (ex, d);
      if (op == OP_RUN) orc_executor_run (ex); else orc_executor_emulate (ex);
      orc_executor_free (ex);
      if (!check_result (d, m->last_float, opname[op])) return 1;
      break;
    }
    case OP_EX_NEW: E = orc_executor_new (P); break;
    case OP_EX_RUN: case OP_EX_EMULATE:
      ex_setup (E, d);
      if (op == OP_EX_RUN) orc_executor_run (E); else orc_executor_emulate (E);
      if (!check_result (d, m->last_float, opname[op])) return 1;
      break;
    case OP_EX_FREE: orc_executor_free (E); E = NULL; break;
    case OP_RUN_CODE: case OP_EMULATE_CODE: {
      OrcExecutor ex;
      memset (&ex, 0, sizeof (ex));
      ex.arrays[ORC_VAR_A2] = C;
      ex_setup (&ex, d);
      if (op == OP_RUN_CODE) orc_executor_run (&ex); else orc_executor_emulate (&ex);
      if (!check_result (d, m->code_float, opname[op])) return 1;
      break;
    }
    case OP_FREE_CODE: orc_code_free (C); C = NULL; break;
    case OP_FREE_PROGRAM: orc_program_free (P); P = NULL; break;
  }
  return 0;
}

static int used_chunks, n_regions;
static void walk_cb (void *u, int region, void *w, void *x, int rsize, int off, int size, int used)
{
  (void) u; (void) w; (void) x; (void) rsize; (void) off; (void) size;
  if (used) used_chunks++;
  if (region + 1 > n_regions) n_regions = region + 1;
}
static int count_fds (void)
{
  DIR *d = opendir ("/proc/self/fd");
  int n = 0;
  struct dirent *e;
  if (!d) return -1;
  while ((e = readdir (d))) n++;
  closedir (d);
  return n;
}

static const char *seq_str (const int *seq, int n)
{
  static char buf[600];
  size_t o = 0;
  int i;
  buf[0] = 0;
  for (i = 0; i < n; i++) o += snprintf (buf + o, sizeof (buf) - o, "%s%s", i ? " " : "", opname[seq[i]]);
  return buf;
}

/* execute one sequence `reps` times in this (child) process; report through fd */
static void run_sequence (const int *seq, int n, int wfd)
{
  int rep, i, rc = 0;
  size_t bytes2 = 0, bytes4 = 0;
  int chunks2 = 0, chunks4 = 0, regs2 = 0, regs4 = 0, fds2 = 0, fds4 = 0;
  char out[700];
  v_install_handlers ();
  alarm (120);	/* wall-clock backstop only: generous, so that a loaded machine cannot turn it into an alarm */
  for (rep = 1; rep <= 4 && !rc; rep++) {
    Model m;
    memset (&m, 0, sizeof (m));
    for (i = 0; i < n && !rc; i++) {
      int rclass;
      if (!legal (&m, seq[i])) { snprintf (failmsg, sizeof (failmsg), "operation %s is legal by the reference model but the implementation's earlier compile result class differs from the documented one (repetition %d)", opname[seq[i]], rep); rc = 2; break; }
      rc = do_op (seq[i], &m, &rclass);
      step_model (&m, seq[i], rclass);
    }
    /* close: free whatever is still held, executor first */
    if (E) { orc_executor_free (E); E = NULL; }
    if (P) { orc_program_free (P); P = NULL; }
    if (C) { orc_code_free (C); C = NULL; }
    if (rep == 2 || rep == 4) {
      size_t b = __sanitizer_get_current_allocated_bytes ();
      used_chunks = 0; n_regions = 0;
      orc_verif_codemem_walk (walk_cb, NULL);
      if (rep == 2) { bytes2 = b; chunks2 = used_chunks; regs2 = n_regions; fds2 = count_fds (); }
      else { bytes4 = b; chunks4 = used_chunks; regs4 = n_regions; fds4 = count_fds (); }
    }
  }
  if (!rc) {
    if (bytes4 != bytes2) { snprintf (failmsg, sizeof (failmsg), "live heap bytes grow with repetitions: %zu after 2, %zu after 4 (leak of %zu bytes per repetition)", bytes2, bytes4, (bytes4 - bytes2) / 2); rc = 3; }
    else if (chunks4 != 0 || chunks2 != 0) { snprintf (failmsg, sizeof (failmsg), "%d code-memory chunks still used after everything was freed", chunks4); rc = 4; }
    else if (regs4 != regs2) { snprintf (failmsg, sizeof (failmsg), "code regions grow with repetitions: %d -> %d", regs2, regs4); rc = 4; }
    else if (fds4 != fds2) { snprintf (failmsg, sizeof (failmsg), "open descriptors grow with repetitions: %d -> %d", fds2, fds4); rc = 4; }
  }
  snprintf (out, sizeof (out), "%d %s", rc, rc ? failmsg : "");
  if (write (wfd, out, strlen (out) + 1) < 0) _exit (3);
  _exit (0);
}

/* ---------------------------------------------------------------- driver */
static int shard, nshards, depth;
static long g_idx, n_seq, n_ops, n_viol, n_states;
static char *seen[300];
static int nseen;
static int nsamples;
static unsigned char state_seen[1 << 18];

static unsigned model_hash (const Model * m)
{
  return (unsigned) (m->prog | m->ninsn << 1 | (m->last_float & 1) << 3 | (m->last_float >> 1) << 15 | (m->code_float >> 1) << 16 | m->has_mismatch << 4 | m->has_unknown << 5 | m->compiled << 6 | m->runnable << 8 | m->ex << 9 | m->code << 11 | (m->code_float & 1) << 12 | m->sticky << 13 | m->has_float << 14 | m->has_late << 17);
}

static void viol (const char *cls, const int *seq, int n, const char *msg)
{
  char key[700];
  int i;
  n_viol++;
  snprintf (key, sizeof (key), "C16|%s|%s", cls, seq_str (seq, n));
  for (i = 0; i < nseen; i++) if (!strcmp (seen[i], key)) return;
  if (nseen < 300) seen[nseen++] = strdup (key);
  v_out ("{\"t\":\"viol\",\"key\":\"%s\",\"what\":\"sequence [%s]: %s\",\"replay\":{\"sequence\":\"%s\"}}", v_esc (key), seq_str (seq, n), v_esc (msg), seq_str (seq, n));
}

static void execute (const int *seq, int n)
{
  int pfd[2], st;
  pid_t pid;
  char buf[800];
  ssize_t got;
  long idx = g_idx++;
  if ((idx % nshards) != shard) return;
  if (pipe (pfd)) return;
  fflush (stdout);
  pid = fork ();
  if (pid == 0) { close (pfd[0]); run_sequence (seq, n, pfd[1]); _exit (0); }
  close (pfd[1]);
  got = read (pfd[0], buf, sizeof (buf) - 1);
  close (pfd[0]);
  waitpid (pid, &st, 0);
  n_seq++;
  n_ops += n * 4;
  if (got <= 0 || !WIFEXITED (st) || WEXITSTATUS (st) != 0) {
    char msg[200];
    snprintf (msg, sizeof (msg), "process died (%s %d): memory error reported by AddressSanitizer or fatal signal", WIFSIGNALED (st) ? "signal" : "exit", WIFSIGNALED (st) ? WTERMSIG (st) : WEXITSTATUS (st));
    viol ("crash", seq, n, msg);
    return;
  }
  buf[got] = 0;
  if (buf[0] != '0') {
    int cls = buf[0] - '0';
    viol (cls == 1 ? "result" : cls == 2 ? "harness" : cls == 3 ? "leak" : "codemem", seq, n, buf + 2);
  }
  if (nsamples < 4 && n == depth && (idx % 3001) == 5) { nsamples++; v_out ("{\"t\":\"sample\",\"sequence\":\"%s\",\"repetitions\":4}", seq_str (seq, n)); }
}

/* The parent enumerates with the model only; compile results are needed to
 * continue a sequence, so the model is advanced with the result class the
 * implementation is documented to give (invalid program => fatal; float on
 * mmx => non-fatal failure; target c => non-fatal, not executable; else ok).
 * If the implementation disagrees, the child reports it (class 2). */
static int predicted_class (const Model * m, int op)
{
  if (m->has_mismatch || m->has_unknown || m->sticky) return 2;
  if (op == OP_COMPILE_C) return 1;
  if (op == OP_COMPILE_MMX && m->has_float) return 1;
  if (m->has_late) return 1;	/* the x86 rules for loadoff give up on a non-constant offset while emitting code */
  return 0;
}

static void dfs (Model m, int *seq, int n)
{
  int op;
  if (n > 0) execute (seq, n);
  if (!state_seen[model_hash (&m) & 0xffff]) { state_seen[model_hash (&m) & 0xffff] = 1; n_states++; }
  if (n == depth || v_expired ()) return;
  for (op = 0; op < OP_N; op++) {
    Model m2 = m;
    if (!legal (&m, op)) continue;
    step_model (&m2, op, predicted_class (&m, op));
    seq[n] = op;
    dfs (m2, seq, n + 1);
  }
}

int main (int argc, char **argv)
{
  int seq[32], dl = v_argi (argc, argv, "--deadline", 0);
  const char *rep = v_arg (argc, argv, "--replay", NULL);
  Model m;
  shard = v_argi (argc, argv, "--shard", 0);
  nshards = v_argi (argc, argv, "--nshards", 1);
  depth = v_argi (argc, argv, "--depth", 4);
  if (dl > 0) v_deadline = v_now () + dl;
  setvbuf (stdout, NULL, _IOLBF, 0);
  orc_init ();			/* zygote */
  {
    OrcProgram *t = orc_program_new_dss (4, 4, 4);
    orc_program_add_parameter (t, 4, "p1");
    orc_program_set_name (t, "life_from_bytecode");
    orc_program_append_str (t, "addl", "d1", "s1", "s2");
    g_bc = orc_bytecode_from_program (t);
    orc_program_free (t);
  }
  memset (&m, 0, sizeof (m));
  if (rep) {
    int n = 0, k;
    char b[600], *t, *save;
    strncpy (b, rep, sizeof (b) - 1); b[sizeof (b) - 1] = 0;
    for (t = strtok_r (b, " ", &save); t; t = strtok_r (NULL, " ", &save))
      for (k = 0; k < OP_N; k++) if (!strcmp (opname[k], t)) seq[n++] = k;
    nshards = 1; shard = 0;
    execute (seq, n);
    printf ("violations=%ld\n", n_viol);
    return n_viol ? 1 : 0;
  }
  dfs (m, seq, 0);
  v_out ("{\"t\":\"stat\",\"sequences\":%ld,\"operations\":%ld,\"violations_raw\":%ld}", n_seq, n_ops, n_viol);
  v_out ("{\"t\":\"max\",\"model_states\":%ld,\"space_size\":%ld}", n_states, g_idx);
  if (v_expired ()) v_out ("{\"t\":\"incomplete\",\"why\":\"deadline\"}");
  return 0;
}
