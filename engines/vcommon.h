/* Shared harness code for the /verif engines: JSON-line output, program
 * descriptors (build through the API, print as .orc text), enumerated program
 * spaces, input tables, array arenas, run-and-compare.  Header-only. */
#ifndef VCOMMON_H
#define VCOMMON_H

#include <stdio.h>
#include <stdlib.h>
#include <string.h>
#include <stdint.h>
#include <stdarg.h>
#include <signal.h>
#include <setjmp.h>
#include <unistd.h>
#include <time.h>
#include <sys/mman.h>
#include <sys/wait.h>
#include <sys/time.h>

#include <orc/orc.h>
#include <orc/orcinternal.h>
#include <orc/orcparse.h>

/* ------------------------------------------------------------------ util */

static double v_now (void)
{
  struct timespec ts;
  clock_gettime (CLOCK_MONOTONIC, &ts);
  return ts.tv_sec + ts.tv_nsec * 1e-9;
}

static double v_deadline = 0;	/* absolute; 0 = none */
static int v_expired (void) { return v_deadline > 0 && v_now () > v_deadline; }

/* JSON string escaping into a static ring of buffers */
static const char *v_esc (const char *s)
{
  static char bufs[4][8192];
  static int k;
  char *b = bufs[k = (k + 1) & 3];
  size_t o = 0;
  for (; *s && o < sizeof (bufs[0]) - 8; s++) {
    unsigned char c = (unsigned char) *s;
    if (c == '"' || c == '\\') { b[o++] = '\\'; b[o++] = c; }
    else if (c == '\n') { b[o++] = '\\'; b[o++] = 'n'; }
    else if (c == '\t') { b[o++] = '\\'; b[o++] = 't'; }
    else if (c < 0x20 || c >= 0x7f) { o += sprintf (b + o, "\\u%04x", c); }
    else b[o++] = c;
  }
  b[o] = 0;
  return b;
}

static void v_out (const char *fmt, ...)
{
  va_list ap;
  va_start (ap, fmt);
  vprintf (fmt, ap);
  va_end (ap);
  fputc ('\n', stdout);
  fflush (stdout);
}

/* simple argv parsing: --key value */
static const char *v_arg (int argc, char **argv, const char *key, const char *def)
{
  int i;
  for (i = 1; i + 1 < argc; i++)
    if (!strcmp (argv[i], key)) return argv[i + 1];
  return def;
}
static int v_argi (int argc, char **argv, const char *key, int def)
{
  const char *s = v_arg (argc, argv, key, NULL);
  return s ? atoi (s) : def;
}
static int v_flag (int argc, char **argv, const char *key)
{
  int i;
  for (i = 1; i < argc; i++) if (!strcmp (argv[i], key)) return 1;
  return 0;
}

static uint64_t v_hash64 (const void *p, size_t n, uint64_t h)
{
  const unsigned char *s = p;
  size_t i;
  h ^= 0xcbf29ce484222325ULL;
  for (i = 0; i < n; i++) { h ^= s[i]; h *= 0x100000001b3ULL; }
  return h;
}

/* ---------------------------------------------------------- descriptors */

enum { VK_D, VK_S, VK_T, VK_C, VK_P, VK_A };
#define V_MAXV 48
#define V_MAXI 40

typedef struct {
  int kind;			/* VK_* */
  int size;
  int ptype;			/* ORC_PARAM_TYPE_* for params; for consts: 0 int, 1 float/double bits */
  int64_t cval;			/* constant value (bit pattern) */
  int align;			/* declared alignment, 0 = natural */
  int idx;			/* orc variable index after build */
} VVar;

typedef struct {
  char op[16];
  unsigned flags;		/* ORC_INSTRUCTION_FLAG_X2/X4 */
  int nargs;
  int args[4];			/* indexes into VProg.v, dests first */
} VInsn;

typedef struct {
  char name[64];
  int nv;
  VVar v[V_MAXV];
  int ni;
  VInsn in[V_MAXI];
  int is2d;
  int cn;			/* constant n (0 = none) */
  int cm;			/* constant m */
} VProg;

static const char *vk_prefix[] = { "d", "s", "t", "c", "p", "a" };

static void vprog_varname (const VProg * p, int vi, char *out)
{
  int i, k = 0;
  for (i = 0; i <= vi; i++) if (p->v[i].kind == p->v[vi].kind) k++;
  sprintf (out, "%s%d", vk_prefix[p->v[vi].kind], k);
}

static int vprog_addvar (VProg * p, int kind, int size)
{
  VVar *v;
  if (p->nv >= V_MAXV) abort ();
  v = &p->v[p->nv];
  memset (v, 0, sizeof (*v));
  v->kind = kind;
  v->size = size;
  return p->nv++;
}

static VInsn *vprog_addinsn (VProg * p, const char *op, unsigned flags, int nargs, int a0, int a1, int a2, int a3)
{
  VInsn *in;
  if (p->ni >= V_MAXI) abort ();
  in = &p->in[p->ni++];
  memset (in, 0, sizeof (*in));
  strncpy (in->op, op, 15);
  in->flags = flags;
  in->nargs = nargs;
  in->args[0] = a0; in->args[1] = a1; in->args[2] = a2; in->args[3] = a3;
  return in;
}

/* Build through the construction API. */
static OrcProgram *vprog_build (VProg * p)
{
  OrcProgram *op = orc_program_new ();
  int i;
  char nm[16];
  orc_program_set_name (op, p->name);
  if (p->is2d) orc_program_set_2d (op);
  if (p->cn) orc_program_set_constant_n (op, p->cn);
  if (p->cm) orc_program_set_constant_m (op, p->cm);
  for (i = 0; i < p->nv; i++) {
    VVar *v = &p->v[i];
    vprog_varname (p, i, nm);
    switch (v->kind) {
      case VK_D: v->idx = orc_program_add_destination_full (op, v->size, nm, NULL, v->align); break;
      case VK_S: v->idx = orc_program_add_source_full (op, v->size, nm, NULL, v->align); break;
      case VK_T: v->idx = orc_program_add_temporary (op, v->size, nm); break;
      case VK_A: v->idx = orc_program_add_accumulator (op, v->size, nm); break;
      case VK_C:
        if (v->size == 8) v->idx = orc_program_add_constant_int64 (op, 8, v->cval, nm);
        else v->idx = orc_program_add_constant (op, v->size, (int) v->cval, nm);
        break;
      case VK_P:
        switch (v->ptype) {
          case ORC_PARAM_TYPE_FLOAT: v->idx = orc_program_add_parameter_float (op, v->size, nm); break;
          case ORC_PARAM_TYPE_INT64: v->idx = orc_program_add_parameter_int64 (op, v->size, nm); break;
          case ORC_PARAM_TYPE_DOUBLE: v->idx = orc_program_add_parameter_double (op, v->size, nm); break;
          default: v->idx = orc_program_add_parameter (op, v->size, nm); break;
        }
        break;
    }
  }
  for (i = 0; i < p->ni; i++) {
    VInsn *in = &p->in[i];
    int a[4] = { -1, -1, -1, -1 }, k;
    for (k = 0; k < in->nargs; k++) a[k] = p->v[in->args[k]].idx;
    orc_program_append_2 (op, in->op, in->flags, a[0], a[1], a[2], a[3]);
  }
  return op;
}

/* Independent printer: .orc text of a descriptor (default formatting). */
static int vprog_text (const VProg * p, char *out, size_t cap)
{
  size_t o = 0;
  int i, k;
  char nm[16];
  o += snprintf (out + o, cap - o, ".function %s\n", p->name);
  if (p->is2d) o += snprintf (out + o, cap - o, ".flags 2d\n");
  if (p->cn) o += snprintf (out + o, cap - o, ".n %d\n", p->cn);
  if (p->cm) o += snprintf (out + o, cap - o, ".m %d\n", p->cm);
  for (i = 0; i < p->nv; i++) {
    const VVar *v = &p->v[i];
    vprog_varname (p, i, nm);
    switch (v->kind) {
      case VK_D:
        if (v->align) o += snprintf (out + o, cap - o, ".dest %d %s align %d\n", v->size, nm, v->align);
        else o += snprintf (out + o, cap - o, ".dest %d %s\n", v->size, nm);
        break;
      case VK_S:
        if (v->align) o += snprintf (out + o, cap - o, ".source %d %s align %d\n", v->size, nm, v->align);
        else o += snprintf (out + o, cap - o, ".source %d %s\n", v->size, nm);
        break;
      case VK_T: o += snprintf (out + o, cap - o, ".temp %d %s\n", v->size, nm); break;
      case VK_A: o += snprintf (out + o, cap - o, ".accumulator %d %s\n", v->size, nm); break;
      case VK_C:
        if (v->size == 8) o += snprintf (out + o, cap - o, ".const 8 %s 0x%llxL\n", nm, (unsigned long long) v->cval);
        else o += snprintf (out + o, cap - o, ".const %d %s %d\n", v->size, nm, (int) v->cval);
        break;
      case VK_P:
        o += snprintf (out + o, cap - o, "%s %d %s\n",
            v->ptype == ORC_PARAM_TYPE_FLOAT ? ".floatparam" : v->ptype == ORC_PARAM_TYPE_INT64 ? ".longparam" :
            v->ptype == ORC_PARAM_TYPE_DOUBLE ? ".doubleparam" : ".param", v->size, nm);
        break;
    }
  }
  for (i = 0; i < p->ni; i++) {
    const VInsn *in = &p->in[i];
    if (in->flags & ORC_INSTRUCTION_FLAG_X2) o += snprintf (out + o, cap - o, "x2 ");
    if (in->flags & ORC_INSTRUCTION_FLAG_X4) o += snprintf (out + o, cap - o, "x4 ");
    o += snprintf (out + o, cap - o, "%s", in->op);
    for (k = 0; k < in->nargs; k++) {
      vprog_varname (p, in->args[k], nm);
      o += snprintf (out + o, cap - o, "%s%s", k ? ", " : " ", nm);
    }
    o += snprintf (out + o, cap - o, "\n");
  }
  return (int) o;
}

/* One-line description for evidence samples / violation records. */
static const char *vprog_oneline (const VProg * p)
{
  static char buf[2048];
  char t[2048];
  char *s;
  vprog_text (p, t, sizeof (t));
  for (s = t; *s; s++) if (*s == '\n') *s = ';';
  snprintf (buf, sizeof (buf), "%s", t);
  return buf;
}

/* Text form of a built OrcProgram (for corpus programs without descriptor). */
static const char *oprog_oneline (OrcProgram * p)
{
  static char buf[4096];
  size_t o = 0;
  int i, k;
  o += snprintf (buf + o, sizeof (buf) - o, "%s:", p->name ? p->name : "?");
  for (i = 0; i < p->n_insns && o < sizeof (buf) - 200; i++) {
    OrcInstruction *in = &p->insns[i];
    o += snprintf (buf + o, sizeof (buf) - o, " %s%s", (in->flags & 1) ? "x2 " : (in->flags & 2) ? "x4 " : "", in->opcode->name);
    for (k = 0; k < 2; k++) if (in->opcode->dest_size[k])
      o += snprintf (buf + o, sizeof (buf) - o, " %s", p->vars[in->dest_args[k]].name);
    for (k = 0; k < 4; k++) if (in->opcode->src_size[k]) {
      OrcVariable *v = &p->vars[in->src_args[k]];
      if (v->vartype == ORC_VAR_TYPE_CONST) o += snprintf (buf + o, sizeof (buf) - o, " %s=0x%llx", v->name, (unsigned long long) v->value.i);
      else o += snprintf (buf + o, sizeof (buf) - o, " %s", v->name);
    }
    o += snprintf (buf + o, sizeof (buf) - o, ";");
  }
  return buf;
}

/* ------------------------------------------------------- opcode helpers */

static OrcStaticOpcode *v_ops;
static int v_nops;

static void v_ops_init (void)
{
  OrcOpcodeSet *set = orc_opcode_set_get ("sys");
  v_ops = set->opcodes;
  v_nops = set->n_opcodes;
}

static int op_is_float (const OrcStaticOpcode * o)
{
  return (o->flags & (ORC_STATIC_OPCODE_FLOAT_SRC | ORC_STATIC_OPCODE_FLOAT_DEST)) != 0;
}
static int op_nsrc (const OrcStaticOpcode * o)
{
  int k = 0;
  while (k < 4 && o->src_size[k]) k++;
  return k;
}
static int op_ndst (const OrcStaticOpcode * o) { return o->dest_size[1] ? 2 : 1; }
static int op_is_shift (const OrcStaticOpcode * o)
{
  return (o->flags & ORC_STATIC_OPCODE_SCALAR) && !(o->flags & ORC_STATIC_OPCODE_LOAD) && o->name[0] == 's' && o->name[1] == 'h';
}
static int op_is_loadoff (const OrcStaticOpcode * o) { return !strncmp (o->name, "loadoff", 7); }
static int op_is_ldres (const OrcStaticOpcode * o) { return !strncmp (o->name, "ldres", 5); }
static int op_is_loadup (const OrcStaticOpcode * o) { return !strncmp (o->name, "loadup", 6); }
static int op_is_loadp (const OrcStaticOpcode * o) { return !strncmp (o->name, "loadp", 5); }

/* ------------------------------------------------------ boundary values */

static const uint64_t VB16[] = {
  0, 1, 2, 3, 0x7f, 0x80, 0x81, 0xff, 0x100, 0x101, 0x3fff, 0x4000, 0x7ffe, 0x7fff, 0x8000, 0x8001,
  0xbfff, 0xc000, 0xfffe, 0xffff, 0x5555, 0xaaaa, 0x00ff, 0xff00, 0x1234, 0xfedc, 0x0102, 0xfe01, 0x7f80, 0x807f, 0x00fe
};
static const uint64_t VB32[] = {
  0, 1, 2, 3, 0x7f, 0x80, 0xff, 0x100, 0x7fff, 0x8000, 0xffff, 0x10000, 0x10001, 0x7fffff, 0x800000, 0xffffff, 0x1000000,
  0x3fffffff, 0x40000000, 0x7ffffffe, 0x7fffffff, 0x80000000u, 0x80000001u, 0xbfffffffu, 0xc0000000u, 0xfffffffeu, 0xffffffffu,
  0x55555555, 0xaaaaaaaau, 0x01020304, 0xfffefdfcu, 0x7f7f7f7f, 0x80808080u, 0xffff0000u, 0x0000ffff, 0xffff8000u, 0xffffff80u,
  0x00008001, 0x12345678, 0xfedcba98u, 0xff00ff00u
};
static const uint64_t VB64[] = {
  0, 1, 2, 0x7f, 0x80, 0xff, 0x7fff, 0x8000, 0xffff, 0x7fffffffULL, 0x80000000ULL, 0xffffffffULL, 0x100000000ULL, 0x100000001ULL,
  0xfffffffffffffULL, 0x10000000000000ULL, 0x1fffffffffffffULL, 0x20000000000000ULL,
  0x3fffffffffffffffULL, 0x4000000000000000ULL, 0x7ffffffffffffffeULL, 0x7fffffffffffffffULL, 0x8000000000000000ULL,
  0x8000000000000001ULL, 0xfffffffffffffffeULL, 0xffffffffffffffffULL, 0xffffffff80000000ULL, 0xffffffff7fffffffULL,
  0xffffffffffff8000ULL, 0xffffffffffffff80ULL, 0x5555555555555555ULL, 0xaaaaaaaaaaaaaaaaULL, 0x0102030405060708ULL,
  0xfffefdfcfbfaf9f8ULL, 0x00000000ffffffffULL, 0xffffffff00000000ULL, 0x123456789abcdef0ULL, 0x8080808080808080ULL,
  0x7f7f7f7f7f7f7f7fULL, 0x00ff00ff00ff00ffULL, 0x0000ffff0000ffffULL
};
#define VNB16 ((int)(sizeof(VB16)/sizeof(VB16[0])))
#define VNB32 ((int)(sizeof(VB32)/sizeof(VB32[0])))
#define VNB64 ((int)(sizeof(VB64)/sizeof(VB64[0])))

/* float alphabets (bit patterns) */
static const uint32_t VF32[] = {
  0x00000000, 0x80000000, 0x00000001, 0x80000001, 0x007fffff, 0x807fffff, 0x00400000, 0x00800000, 0x80800000, 0x00800001,
  0x3f800000, 0xbf800000, 0x40000000, 0xc0000000, 0x3f000000, 0xbf000000, 0x3fc00000, 0x40200000, 0xc0200000, 0x40600000,
  0x4b000000, 0x4b000001, 0x4b7fffff, 0x4b800000, 0xcb800000, 0x4effffff, 0x4f000000, 0xcf000000, 0xcf000001, 0x4f800000,
  0x5f000000, 0xdf000000, 0x7f7fffff, 0xff7fffff, 0x7f800000, 0xff800000, 0x7fc00000, 0xffc00000, 0x7f800001, 0x7fc12345,
  0x3eaaaaab, 0x40490fdb, 0xc2f6e979, 0x461c4000, 0x3a83126f, 0x1e3ce508, 0x6258d727, 0x3f7fffff, 0x3f800001, 0x00ffffff,
  0x7e800000, 0x01000000, 0x47000000, 0x46fffe00, 0xc7000000, 0x477fff00
};
static const uint64_t VF64[] = {
  0x0000000000000000ULL, 0x8000000000000000ULL, 0x0000000000000001ULL, 0x8000000000000001ULL, 0x000fffffffffffffULL,
  0x800fffffffffffffULL, 0x0010000000000000ULL, 0x8010000000000000ULL, 0x0010000000000001ULL,
  0x3ff0000000000000ULL, 0xbff0000000000000ULL, 0x4000000000000000ULL, 0xc000000000000000ULL, 0x3fe0000000000000ULL,
  0xbfe0000000000000ULL, 0x3ff8000000000000ULL, 0x4004000000000000ULL, 0xc004000000000000ULL, 0x400c000000000000ULL,
  0x4330000000000000ULL, 0x4330000000000001ULL, 0x433fffffffffffffULL, 0x4340000000000000ULL, 0xc340000000000000ULL,
  0x41dfffffffc00000ULL, 0x41e0000000000000ULL, 0xc1e0000000000000ULL, 0xc1e0000000200000ULL, 0x41f0000000000000ULL,
  0x43e0000000000000ULL, 0xc3e0000000000000ULL, 0x7fefffffffffffffULL, 0xffefffffffffffffULL, 0x7ff0000000000000ULL,
  0xfff0000000000000ULL, 0x7ff8000000000000ULL, 0xfff8000000000000ULL, 0x7ff0000000000001ULL, 0x7ff8000000012345ULL,
  0x3fd5555555555555ULL, 0x400921fb54442d18ULL, 0xc05edd2f1a9fbe77ULL, 0x40c3880000000000ULL, 0x3f50624dd2f1a9fcULL,
  0x3bc79ca10c924223ULL, 0x444b1ae4d6e2ef50ULL, 0x3fefffffffffffffULL, 0x3ff0000000000001ULL, 0x001fffffffffffffULL,
  0x47efffffe0000000ULL, 0x47f0000000000000ULL, 0x3810000000000000ULL, 0x380fffffffffffffULL, 0x36a0000000000000ULL,
  0x41dfffffffe00000ULL
};
#define VNF32 ((int)(sizeof(VF32)/sizeof(VF32[0])))
#define VNF64 ((int)(sizeof(VF64)/sizeof(VF64[0])))

/* value of element i of source role r for element size sz.  Layout: all
 * tuples of the alphabet of that size: role r cycles with period |B|^(r+1). */
static int v_finite_only;	/* float alphabets without infinities and NaNs (cross-path comparisons are only defined for finite inputs) */
static int v_float_is_finite (int sz, uint64_t bits)
{
  return sz == 4 ? ((bits & 0x7f800000u) != 0x7f800000u) : ((bits & 0x7ff0000000000000ULL) != 0x7ff0000000000000ULL);
}

static uint64_t v_value (int sz, int isfloat, int role, uint64_t i)
{
  uint64_t nb, k, d = 1;
  int r;
  switch (sz) {
    case 1: nb = 256; break;
    case 2: nb = VNB16; break;
    case 4: nb = isfloat ? VNF32 : VNB32; break;
    default: nb = isfloat ? VNF64 : VNB64; break;
  }
  for (r = 0; r < role && d <= 100000; r++) d *= nb;
  if (d > 100000) k = (i * (uint64_t) (2 * role + 1) + (uint64_t) role * 13) % nb;	/* beyond any n used: vary, do not stay constant */
  else k = ((i / d) + (role ? i : 0)) % nb;	/* every role varies from element to element; over |B|^(roles) elements all tuples occur */
  /* decorrelate lanes for roles > 1 that would otherwise be constant over long runs */
  switch (sz) {
    case 1: return k;
    case 2: return VB16[k];
    case 4:
      if (isfloat && v_finite_only) { while (!v_float_is_finite (4, VF32[k])) k = (k + 1) % nb; }
      return isfloat ? VF32[k] : VB32[k];
    default:
      if (isfloat && v_finite_only) { while (!v_float_is_finite (8, VF64[k])) k = (k + 1) % nb; }
      return isfloat ? VF64[k] : VB64[k];
  }
}

static uint64_t v_alphabet_size (int sz, int isfloat)
{
  switch (sz) {
    case 1: return 256;
    case 2: return VNB16;
    case 4: return isfloat ? VNF32 : VNB32;
    default: return isfloat ? VNF64 : VNB64;
  }
}

/* ---------------------------------------------------------------- arrays */

#define V_GUARD 256		/* canary bytes on either side of each row block */
#define V_CANARY 0xA5

typedef struct {
  unsigned char *mem;		/* allocation */
  size_t memlen;
  unsigned char *data;		/* element 0 of row 0 */
  int stride;
  int esize;
  size_t rowbytes;		/* bytes entitled per row */
  int m;
} VArr;

/* allocate an array whose data pointer is 64-byte aligned plus `off` bytes. */
static void varr_alloc (VArr * a, int esize, size_t nelem, int m, int stride_extra, int off, int align)
{
  size_t row = esize * nelem;
  a->esize = esize;
  a->rowbytes = row;
  a->m = m;
  a->stride = (int) (row + stride_extra);
  if (m > 1 || stride_extra) {
    /* keep every row at the same element alignment */
    if (align < esize) align = esize;
    a->stride = (a->stride + align - 1) / align * align;
  }
  a->memlen = (size_t) a->stride * (m > 0 ? m : 1) + 2 * V_GUARD + 128 + 64;
  a->mem = malloc (a->memlen);
  memset (a->mem, V_CANARY, a->memlen);
  a->data = (unsigned char *) ((((uintptr_t) a->mem + V_GUARD + 63) & ~(uintptr_t) 63) + off);
}
static void varr_free (VArr * a) { free (a->mem); a->mem = NULL; }

/* ---------------------------------------------------------------- compile */

typedef struct {
  OrcTarget *target;
  unsigned flags;
  const char *name;
} VTarget;

static int v_get_targets (VTarget * out, const char *names)
{
  /* names: comma separated, e.g. "avx,sse,mmx" */
  char buf[128], *s, *save;
  int n = 0;
  strncpy (buf, names, sizeof (buf) - 1);
  buf[sizeof (buf) - 1] = 0;
  for (s = strtok_r (buf, ",", &save); s; s = strtok_r (NULL, ",", &save)) {
    OrcTarget *t = orc_target_get_by_name (s);
    if (!t) continue;
    out[n].target = t;
    out[n].flags = orc_target_get_default_flags (t);
    out[n].name = orc_target_get_name (t);
    n++;
  }
  return n;
}

/* ------------------------------------------------------- crash confinement */

static sigjmp_buf v_jmp;
static volatile int v_jmp_armed;
static volatile int v_sig;
static void *volatile v_sigaddr;

static void v_sighandler (int sig, siginfo_t * si, void *uc)
{
  (void) uc;
  v_sig = sig;
  v_sigaddr = si ? si->si_addr : 0;
  if (v_jmp_armed) {
    v_jmp_armed = 0;
    siglongjmp (v_jmp, 1);
  }
  _exit (90 + (sig & 7));
}

static void v_install_handlers (void)
{
  static char altstack[65536];
  stack_t ss;
  struct sigaction sa;
  ss.ss_sp = altstack;
  ss.ss_size = sizeof (altstack);
  ss.ss_flags = 0;
  sigaltstack (&ss, NULL);
  memset (&sa, 0, sizeof (sa));
  sa.sa_sigaction = v_sighandler;
  sa.sa_flags = SA_SIGINFO | SA_ONSTACK | SA_NODEFER;
  sigaction (SIGSEGV, &sa, NULL);
  sigaction (SIGBUS, &sa, NULL);
  sigaction (SIGILL, &sa, NULL);
  sigaction (SIGFPE, &sa, NULL);
  sigaction (SIGABRT, &sa, NULL);
}

/* Run `stmt` confined: returns 0 if it completed, signal number otherwise. */
#define V_CONFINED(stmt, sigout) do { \
  (sigout) = 0; \
  if (sigsetjmp (v_jmp, 1) == 0) { v_jmp_armed = 1; stmt; v_jmp_armed = 0; } \
  else { (sigout) = v_sig; } \
} while (0)


/* ------------------------------------------------------------ supervisor */

/* A worker iterates over case indexes; before each case it records the index
 * and a description in a shared page.  If the worker dies (crash, abort,
 * sanitizer exit, watchdog), the supervisor reports the recorded case and
 * restarts the worker behind it, so one bad case does not hide the rest. */
typedef struct {
  volatile long cur;		/* index of the case in progress */
  volatile long done;		/* set when the worker finished its range */
  volatile int phase;
  char desc[3000];
  char key[400];
} VShared;

static VShared *v_shared;

static void v_case (long idx, const char *key, const char *desc)
{
  if (!v_shared) return;
  v_shared->cur = idx;
  snprintf ((char *) v_shared->key, sizeof (v_shared->key), "%s", key ? key : "");
  snprintf ((char *) v_shared->desc, sizeof (v_shared->desc), "%s", desc ? desc : "");
}

static void v_alarm_handler (int sig) { (void) sig; _exit (77); }

/* arm a watchdog for the current case: `seconds` of CPU time of this process (a compile or run that does not
 * terminate burns CPU; CPU time does not depend on how loaded the machine is), plus a wall-clock backstop of 30x
 * for a case that blocks without using CPU */
static void v_watchdog (int seconds)
{
  struct itimerval it;
  memset (&it, 0, sizeof (it));
  it.it_value.tv_sec = seconds;
  signal (SIGPROF, v_alarm_handler);
  setitimer (ITIMER_PROF, &it, NULL);
  it.it_value.tv_sec = (long) seconds * 30;
  signal (SIGALRM, v_alarm_handler);
  setitimer (ITIMER_REAL, &it, NULL);
}

typedef void (*VWorker) (long start, void *user);

/* returns number of worker deaths */
static int v_supervise (VWorker fn, void *user, const char *prop)
{
  long start = 0;
  int deaths = 0;
  v_shared = mmap (NULL, sizeof (VShared), PROT_READ | PROT_WRITE, MAP_SHARED | MAP_ANONYMOUS, -1, 0);
  memset (v_shared, 0, sizeof (VShared));
  for (;;) {
    pid_t pid;
    int st;
    fflush (stdout);
    v_shared->cur = start - 1;
    pid = fork ();
    if (pid == 0) {
      fn (start, user);
      fflush (stdout);
      v_shared->done = 1;
      _exit (0);
    }
    waitpid (pid, &st, 0);
    if (v_shared->done) break;
    deaths++;
    {
      char how[80];
      if (WIFSIGNALED (st)) snprintf (how, sizeof (how), "signal %d", WTERMSIG (st));
      else if (WEXITSTATUS (st) == 77) snprintf (how, sizeof (how), "watchdog timeout");
      else snprintf (how, sizeof (how), "exit %d", WEXITSTATUS (st));
      v_out ("{\"t\":\"viol\",\"key\":\"%s|died:%s\",\"what\":\"%s: worker died (%s) in case %ld: %s\",\"replay\":{\"case\":%ld,\"desc\":\"%s\"}}",
          v_esc ((const char *) v_shared->key), WIFSIGNALED (st) ? "signal" : (WEXITSTATUS (st) == 77 ? "timeout" : "exit"),
          prop, how, (long) v_shared->cur, v_esc ((const char *) v_shared->desc), (long) v_shared->cur, v_esc ((const char *) v_shared->desc));
    }
    start = v_shared->cur + 1;
    if (deaths > 200) { v_out ("{\"t\":\"incomplete\",\"why\":\"too many worker deaths\"}"); break; }
    if (v_expired ()) { v_out ("{\"t\":\"incomplete\",\"why\":\"deadline\"}"); break; }
  }
  return deaths;
}

#endif /* VCOMMON_H */
