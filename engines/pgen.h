/* Enumerated program spaces (see DESIGN.md 3.3).  Every generator walks its
 * space in a fixed order and calls cb for each descriptor; sharding is done by
 * the caller on the running index.  Driven by the live opcode table. */
#ifndef PGEN_H
#define PGEN_H
#include "vcommon.h"

typedef void (*PgenCb) (VProg * p, void *user);

#define PG_INT 1
#define PG_FLOAT 2

static int64_t pg_const_choice (int size, int isfloat, int k)
{
  if (isfloat) {
    static const uint32_t f4[] = { 0x3f800000, 0xc0200000, 0x00400000, 0x7f800000 };
    static const uint64_t f8[] = { 0x3ff0000000000000ULL, 0xc004000000000000ULL, 0x0008000000000000ULL, 0x7ff0000000000000ULL };
    return size == 8 ? (int64_t) f8[k & 3] : (int64_t) (int32_t) f4[k & 3];
  }
  switch (size) {
    case 1: { static const int c[] = { 3, -128, 0x55, 127 }; return c[k & 3]; }
    case 2: { static const int c[] = { 3, -32768, 0x1234, 32767 }; return c[k & 3]; }
    case 4: { static const int c[] = { 3, (int) 0x80000000, 0x12345678, 0x7fffffff }; return c[k & 3]; }
    default: { static const int64_t c[] = { 3, (int64_t) 0x8000000000000000ULL, 0x123456789abcdef0LL, 0x7fffffffffffffffLL }; return c[k & 3]; }
  }
}

/* kinds for a source slot */
enum { SK_S, SK_C0, SK_C1, SK_C2, SK_P, SK_N };

static int pg_add_src (VProg * p, const OrcStaticOpcode * o, int slot, int sk, int mult, int64_t special, int use_special)
{
  int size = o->src_size[slot];
  int isfloat = (o->flags & ORC_STATIC_OPCODE_FLOAT_SRC) != 0;
  int vi;
  if (sk == SK_S) {
    return vprog_addvar (p, VK_S, size * mult);
  }
  if (sk == SK_P) {
    vi = vprog_addvar (p, VK_P, size);
    if (size == 8) p->v[vi].ptype = isfloat ? ORC_PARAM_TYPE_DOUBLE : ORC_PARAM_TYPE_INT64;
    else p->v[vi].ptype = (isfloat && size == 4) ? ORC_PARAM_TYPE_FLOAT : ORC_PARAM_TYPE_INT;
    return vi;
  }
  vi = vprog_addvar (p, VK_C, size);
  p->v[vi].cval = use_special ? special : pg_const_choice (size, isfloat, sk - SK_C0);
  p->v[vi].ptype = isfloat;
  return vi;
}

static void pg_name (VProg * p, const char *lvl, long idx)
{
  snprintf (p->name, sizeof (p->name), "v%s_%ld", lvl, idx);
}

/* LW: a scalar operand declared narrower than the operation that uses it (a 1-, 2- or 4-byte parameter given to a
 * 2-, 4- or 8-byte opcode; the compiler accepts it), followed by a second narrow parameter that a second instruction
 * uses, so that the neighbouring parameter slot holds a value */
static long pgen_LW (PgenCb cb, void *user)
{
  int oi, w;
  long cnt = 0;
  for (oi = 0; oi < v_nops; oi++) {
    const OrcStaticOpcode *o = &v_ops[oi];
    if (op_is_float (o) || op_nsrc (o) != 2 || o->dest_size[1] || (o->flags & (ORC_STATIC_OPCODE_SCALAR | ORC_STATIC_OPCODE_ACCUMULATOR))) continue;
    if (o->src_size[0] != o->src_size[1] || op_is_loadoff (o) || op_is_ldres (o)) continue;
    for (w = 1; w < o->src_size[1]; w *= 2) {
      VProg p;
      int d1, s1, p1, d2, s2, p2;
      memset (&p, 0, sizeof (p));
      d1 = vprog_addvar (&p, VK_D, o->dest_size[0]); s1 = vprog_addvar (&p, VK_S, o->src_size[0]);
      d2 = vprog_addvar (&p, VK_D, o->dest_size[0]); s2 = vprog_addvar (&p, VK_S, o->src_size[0]);
      p1 = vprog_addvar (&p, VK_P, w); p.v[p1].ptype = ORC_PARAM_TYPE_INT;
      p2 = vprog_addvar (&p, VK_P, w); p.v[p2].ptype = ORC_PARAM_TYPE_INT;
      vprog_addinsn (&p, o->name, 0, 3, d1, s1, p1, -1);
      vprog_addinsn (&p, o->name, 0, 3, d2, s2, p2, -1);
      pg_name (&p, "LW", cnt++);
      cb (&p, user);
    }
    /* the same with named constants narrower than the operation, negative and positive */
    for (w = 1; w < o->src_size[1]; w *= 2) {
      VProg p;
      int d1, s1, c1, d2, s2, c2;
      memset (&p, 0, sizeof (p));
      d1 = vprog_addvar (&p, VK_D, o->dest_size[0]); s1 = vprog_addvar (&p, VK_S, o->src_size[0]);
      d2 = vprog_addvar (&p, VK_D, o->dest_size[0]); s2 = vprog_addvar (&p, VK_S, o->src_size[0]);
      c1 = vprog_addvar (&p, VK_C, w); p.v[c1].cval = -3;
      c2 = vprog_addvar (&p, VK_C, w); p.v[c2].cval = 100;
      vprog_addinsn (&p, o->name, 0, 3, d1, s1, c1, -1);
      vprog_addinsn (&p, o->name, 0, 3, d2, s2, c2, -1);
      pg_name (&p, "LW", cnt++);
      cb (&p, user);
    }
  }
  return cnt;
}

/* L1: every single-opcode program. */
static long pgen_L1 (PgenCb cb, void *user, int classes)
{
  long count = 0;
  int oi;
  for (oi = 0; oi < v_nops; oi++) {
    const OrcStaticOpcode *o = &v_ops[oi];
    int nsrc = op_nsrc (o), ndst = op_ndst (o);
    int isf = op_is_float (o);
    int maxsz = 1, k, mult, is2d;
    int plain = !(o->flags & (ORC_STATIC_OPCODE_LOAD | ORC_STATIC_OPCODE_STORE | ORC_STATIC_OPCODE_ACCUMULATOR));
    if (isf && !(classes & PG_FLOAT)) continue;
    if (!isf && !(classes & PG_INT)) continue;
    for (k = 0; k < 2; k++) if (o->dest_size[k] > maxsz) maxsz = o->dest_size[k];
    for (k = 0; k < 4; k++) if (o->src_size[k] > maxsz) maxsz = o->src_size[k];
    for (mult = 1; mult <= 4; mult *= 2) {
      if (mult > 1 && (!plain || maxsz * mult > 8)) continue;
      for (is2d = 0; is2d < 2; is2d++) {
        /* source-kind vectors */
        int sk[3], nvec = 0, vec[64][3];
        int lo0 = SK_S, hi0 = SK_P, lo1 = SK_S, hi1 = SK_P;
        int nspecial = 1, sp;
        if (o->flags & ORC_STATIC_OPCODE_LOAD) {
          if (op_is_loadp (o)) { lo0 = SK_C0; hi0 = SK_P; }
          else { lo0 = hi0 = SK_S; lo1 = SK_C0; hi1 = SK_P; }
        } else if (o->flags & ORC_STATIC_OPCODE_SCALAR) {
          lo0 = hi0 = SK_S; lo1 = SK_C0; hi1 = SK_P;
        } else if (o->flags & (ORC_STATIC_OPCODE_STORE | ORC_STATIC_OPCODE_ACCUMULATOR)) {
          lo0 = hi0 = SK_S; lo1 = hi1 = SK_S;
        }
        for (sk[0] = lo0; sk[0] <= hi0; sk[0]++) {
          if (nsrc < 2) { vec[nvec][0] = sk[0]; vec[nvec][1] = vec[nvec][2] = -1; nvec++; continue; }
          for (sk[1] = lo1; sk[1] <= hi1; sk[1]++) {
            if (sk[0] >= SK_C1 && sk[0] <= SK_C2 && sk[1] != SK_S) continue;	/* const variety only against arrays */
            if (sk[1] >= SK_C1 && sk[1] <= SK_C2 && sk[0] != SK_S) continue;
            if (nsrc < 3) { vec[nvec][0] = sk[0]; vec[nvec][1] = sk[1]; vec[nvec][2] = -1; nvec++; continue; }
            /* three sources: ldres*: src2 const or param */
            vec[nvec][0] = sk[0]; vec[nvec][1] = sk[1]; vec[nvec][2] = sk[1] == SK_P ? SK_P : SK_C0; nvec++;
          }
        }
        /* special constant domains */
        if (op_is_shift (o)) nspecial = o->src_size[0] * 8;	/* every count 0..width-1 */
        else if (op_is_loadoff (o)) nspecial = 5;
        else if (op_is_ldres (o)) nspecial = 8;	/* incl. increments on the imm8 boundary of the pointer update: 127, 128, 129 */
        {
          int vi;
          for (vi = 0; vi < nvec; vi++) {
            int has_const = 0, dv, ndv, av, nav;
            for (k = 0; k < nsrc; k++) if (vec[vi][k] >= SK_C0 && vec[vi][k] <= SK_C2) has_const = 1;
            for (sp = 0; sp < ((has_const && nspecial > 1) ? nspecial : 1); sp++) {
              /* destination variants: 0 plain, 1 in place on src0, 2 in place on src1 */
              ndv = 1;
              if (plain && ndst == 1 && vec[vi][0] == SK_S && o->dest_size[0] == o->src_size[0]) ndv = 2;
              if (ndv == 2 && nsrc >= 2 && vec[vi][1] == SK_S && o->dest_size[0] == o->src_size[1]) ndv = 3;
              for (dv = 0; dv < ndv; dv++) {
                /* declared alignment variants only for the all-array plain form */
                nav = 1;
                if (dv == 0 && sp == 0 && vec[vi][0] == SK_S && (nsrc < 2 || vec[vi][1] == SK_S)) nav = 4;
                for (av = 0; av < nav; av++) {
                  VProg p;
                  int args[4], na = 0, s[3] = { -1, -1, -1 };
                  int al = av == 1 ? 16 : av == 2 ? 32 : av == 3 ? 1 : 0;	/* 1: below the element size, the array may start anywhere */
                  memset (&p, 0, sizeof (p));
                  p.is2d = is2d;
                  if (o->flags & ORC_STATIC_OPCODE_ACCUMULATOR) {
                    args[na++] = vprog_addvar (&p, VK_A, o->dest_size[0]);
                  } else {
                    args[na] = vprog_addvar (&p, VK_D, o->dest_size[0] * mult);
                    p.v[args[na]].align = al;
                    na++;
                    if (ndst == 2) { args[na] = vprog_addvar (&p, VK_D, o->dest_size[1] * mult); p.v[args[na]].align = al; na++; }
                  }
                  for (k = 0; k < nsrc; k++) {
                    int64_t special = 0;
                    int use = 0;
                    if (vec[vi][k] >= SK_C0 && vec[vi][k] <= SK_C2 && k >= 1) {
                      if (op_is_shift (o)) { special = sp; use = 1; }
                      else if (op_is_loadoff (o)) { static const int offs[] = { 1, 0, -1, 3, -4 }; special = offs[sp]; use = 1; }
                      else if (op_is_ldres (o)) {
                        static const int st[] = { 0, 0x8000, 0x18000, 0, 0xffff, 0, 0, 0 };
                        static const int inc[] = { 0x10000, 0x8000, 0x18000, 0x5555, 0x10001, 127, 128, 129 };
                        special = k == 1 ? st[sp] : inc[sp]; use = 1;
                      }
                    }
                    if (dv == 1 && k == 0) { s[k] = args[0]; }
                    else if (dv == 2 && k == 1) { s[k] = args[0]; }
                    else {
                      s[k] = pg_add_src (&p, o, k, vec[vi][k], mult, special, use);
                      if (p.v[s[k]].kind == VK_S) p.v[s[k]].align = al ? al : 0;
                    }
                    args[na++] = s[k];
                  }
                  vprog_addinsn (&p, o->name, mult == 2 ? ORC_INSTRUCTION_FLAG_X2 : mult == 4 ? ORC_INSTRUCTION_FLAG_X4 : 0,
                      na, args[0], na > 1 ? args[1] : -1, na > 2 ? args[2] : -1, na > 3 ? args[3] : -1);
                  if (av == 3) {
                    /* "align 1" differs from the default only for arrays of wider elements */
                    int wide = 0, q;
                    for (q = 0; q < p.nv; q++) if ((p.v[q].kind == VK_S || p.v[q].kind == VK_D) && p.v[q].size > 1) wide = 1;
                    if (!wide) continue;
                  }
                  pg_name (&p, "L1", count);
                  cb (&p, user);
                  count++;
                }
              }
            }
          }
        }
      }
    }
  }
  return count;
}

/* helpers for chains: add the extra (non-chained) sources of opcode o as
 * arrays (or constants for scalar slots) and append the instruction. */
static int pg_chain_insn (VProg * p, const OrcStaticOpcode * o, int dest, int dest2, int src0, int same_src1, int mult)
{
  int args[4], na = 0, k, nsrc = op_nsrc (o);
  args[na++] = dest;
  if (o->dest_size[1]) args[na++] = dest2;
  args[na++] = src0;
  for (k = 1; k < nsrc; k++) {
    if (k == 1 && same_src1) { args[na++] = src0; continue; }
    if (o->flags & ORC_STATIC_OPCODE_SCALAR) {
      int vi = vprog_addvar (p, VK_C, o->src_size[k]);
      p->v[vi].cval = op_is_shift (o) ? (o->src_size[0] * 8 - 3) : 2;
      args[na++] = vi;
    } else {
      args[na++] = vprog_addvar (p, VK_S, o->src_size[k] * mult);
    }
  }
  vprog_addinsn (p, o->name, mult == 2 ? ORC_INSTRUCTION_FLAG_X2 : mult == 4 ? ORC_INSTRUCTION_FLAG_X4 : 0, na, args[0], args[1],
      na > 2 ? args[2] : -1, na > 3 ? args[3] : -1);
  return 0;
}

static int pg_chainable (const OrcStaticOpcode * o, int classes)
{
  if (o->flags & (ORC_STATIC_OPCODE_LOAD | ORC_STATIC_OPCODE_STORE | ORC_STATIC_OPCODE_ACCUMULATOR)) return 0;
  if (op_is_float (o) && !(classes & PG_FLOAT)) return 0;
  if (!op_is_float (o) && !(classes & PG_INT)) return 0;
  return 1;
}

/* L2: every size-compatible ordered pair chained through a temporary, in
 * three shapes: 0 fresh temp, 1 temp used as both operands, 2 temp overwritten
 * in place then stored. */
static long pgen_L2 (PgenCb cb, void *user, int classes)
{
  long count = 0;
  int a, b, shape;
  for (a = 0; a < v_nops; a++) {
    const OrcStaticOpcode *oa = &v_ops[a];
    if (!pg_chainable (oa, classes | PG_INT)) continue;
    for (b = 0; b < v_nops; b++) {
      const OrcStaticOpcode *ob = &v_ops[b];
      if (!pg_chainable (ob, classes | PG_INT)) continue;
      if (!(classes & PG_FLOAT) && (op_is_float (oa) || op_is_float (ob))) continue;
      if (!(classes & PG_INT) && !op_is_float (oa) && !op_is_float (ob)) continue;
      if (oa->dest_size[0] != ob->src_size[0]) continue;
      for (shape = 0; shape < 3; shape++) {
        VProg p;
        int t1, t1b = -1, d, d2 = -1, s0;
        if (shape == 1 && !(op_nsrc (ob) >= 2 && ob->src_size[1] == ob->src_size[0] && !(ob->flags & ORC_STATIC_OPCODE_SCALAR))) continue;
        if (shape == 2 && !(ob->dest_size[0] == ob->src_size[0] && !ob->dest_size[1])) continue;
        memset (&p, 0, sizeof (p));
        d = vprog_addvar (&p, VK_D, ob->dest_size[0]);
        if (ob->dest_size[1]) d2 = vprog_addvar (&p, VK_D, ob->dest_size[1]);
        s0 = vprog_addvar (&p, VK_S, oa->src_size[0]);
        t1 = vprog_addvar (&p, VK_T, oa->dest_size[0]);
        if (oa->dest_size[1]) t1b = vprog_addvar (&p, VK_T, oa->dest_size[1]);
        pg_chain_insn (&p, oa, t1, t1b, s0, 0, 1);
        if (shape == 2) {
          static const char *copyname[] = { "", "copyb", "copyw", "", "copyl", "", "", "", "copyq" };
          pg_chain_insn (&p, ob, t1, -1, t1, 0, 1);
          vprog_addinsn (&p, copyname[ob->dest_size[0]], 0, 2, d, t1, -1, -1);
        } else {
          pg_chain_insn (&p, ob, d, d2, t1, shape == 1, 1);
        }
        if (t1b >= 0) {
          /* keep the second result alive: store it to a further destination */
          static const char *copyname[] = { "", "copyb", "copyw", "", "copyl", "", "", "", "copyq" };
          int d3 = vprog_addvar (&p, VK_D, oa->dest_size[1]);
          vprog_addinsn (&p, copyname[oa->dest_size[1]], 0, 2, d3, t1b, -1, -1);
        }
        pg_name (&p, "L2", count);
        cb (&p, user);
        count++;
      }
    }
  }
  return count;
}

/* representative alphabet for length-3 chains: one opcode per emitter family */
static const char *pg_R[] = {
  "addb", "subusb", "avgub", "mullb", "shrsb", "cmpgtsb", "absb",
  "addw", "addssw", "mulhsw", "shlw", "maxuw", "div255w", "swapw", "signw",
  "addl", "subssl", "mulll", "shrul", "minsl", "swapl", "cmpeql",
  "addq", "shrsq", "andnq", "swapq", "cmpgtsq",
  "convsbw", "convubw", "convwb", "convsuswb", "convhwb", "convswl", "convlw", "convssslw", "convhlw", "convslq", "convql", "convsssql",
  "mulsbw", "muluwl", "mulslq", "select0wb", "select1lw", "select0ql", "splatbw", "splatbl", "swapwl", "swaplq", "splatw3q",
  "mergebw", "mergewl", "mergelq", NULL
};
static const char *pg_RF[] = {
  "addf", "mulf", "divf", "sqrtf", "minf", "maxf", "cmpltf", "convfl", "convlf", "convfd", "convdf",
  "addd", "subd", "muld", "sqrtd", "mind", "cmpled", "convdl", "convld", "andf", "orf", "convwf", "copyl", "copyq", "swapl", NULL
};

static long pgen_L3 (PgenCb cb, void *user, int classes)
{
  long count = 0;
  const char **R = (classes & PG_FLOAT) ? pg_RF : pg_R;
  int a, b, c, shape;
  for (a = 0; R[a]; a++) for (b = 0; R[b]; b++) for (c = 0; R[c]; c++) {
    const OrcStaticOpcode *oa = orc_opcode_find_by_name (R[a]);
    const OrcStaticOpcode *ob = orc_opcode_find_by_name (R[b]);
    const OrcStaticOpcode *oc = orc_opcode_find_by_name (R[c]);
    if (!oa || !ob || !oc) continue;
    if (oa->dest_size[0] != ob->src_size[0] || ob->dest_size[0] != oc->src_size[0]) continue;
    for (shape = 0; shape < 2; shape++) {
      /* shape 0: fresh temporaries; shape 1: second temp reused when sizes allow
       * (t1 is overwritten by ob when ob keeps the size) */
      VProg p;
      int d, s0, t1, t2;
      if (shape == 1 && ob->dest_size[0] != oa->dest_size[0]) continue;
      memset (&p, 0, sizeof (p));
      d = vprog_addvar (&p, VK_D, oc->dest_size[0]);
      s0 = vprog_addvar (&p, VK_S, oa->src_size[0]);
      t1 = vprog_addvar (&p, VK_T, oa->dest_size[0]);
      t2 = shape == 1 ? t1 : vprog_addvar (&p, VK_T, ob->dest_size[0]);
      pg_chain_insn (&p, oa, t1, -1, s0, 0, 1);
      pg_chain_insn (&p, ob, t2, -1, t1, 0, 1);
      pg_chain_insn (&p, oc, d, -1, t2, 0, 1);
      pg_name (&p, (classes & PG_FLOAT) ? "L3F" : "L3", count);
      cb (&p, user);
      count++;
    }
  }
  return count;
}

/* L5: pressure programs: k simultaneously live temporaries (register
 * exhaustion => fallback), many arrays, constant n. */
static long pgen_L5 (PgenCb cb, void *user)
{
  long count = 0;
  int k, sz, cn;
  static const char *addn[] = { "", "addb", "addw", "", "addl", "", "", "", "addq" };
  static const char *xorn[] = { "", "xorb", "xorw", "", "xorl", "", "", "", "xorq" };
  /* k live temporaries: t_i = s1 op c_i ; then fold */
  for (sz = 1; sz <= 8; sz *= 2) {
    for (k = 1; k <= 14; k++) {
      VProg p;
      int d, s1, s2, t[16], i, c;
      memset (&p, 0, sizeof (p));
      d = vprog_addvar (&p, VK_D, sz);
      s1 = vprog_addvar (&p, VK_S, sz);
      s2 = vprog_addvar (&p, VK_S, sz);
      c = vprog_addvar (&p, VK_C, sz);
      p.v[c].cval = 5;
      for (i = 0; i < k; i++) t[i] = vprog_addvar (&p, VK_T, sz);
      if (p.ni + k + k + 1 > V_MAXI) continue;
      for (i = 0; i < k; i++) vprog_addinsn (&p, i & 1 ? xorn[sz] : addn[sz], 0, 3, t[i], i == 0 ? s1 : t[i - 1], i & 1 ? s2 : c, -1);
      /* all temporaries stay live until folded */
      for (i = 1; i < k && p.ni < V_MAXI - 1; i++) vprog_addinsn (&p, xorn[sz], 0, 3, t[0], t[0], t[i], -1);
      vprog_addinsn (&p, addn[sz], 0, 3, d, t[0], s1, -1);
      pg_name (&p, "L5t", count);
      cb (&p, user);
      count++;
    }
  }
  /* many arrays: 4 destinations, 8 sources */
  for (sz = 1; sz <= 8; sz *= 2) {
    VProg p;
    int d[4], s[8], i;
    memset (&p, 0, sizeof (p));
    for (i = 0; i < 4; i++) d[i] = vprog_addvar (&p, VK_D, sz);
    for (i = 0; i < 8; i++) s[i] = vprog_addvar (&p, VK_S, sz);
    for (i = 0; i < 4; i++) vprog_addinsn (&p, addn[sz], 0, 3, d[i], s[2 * i], s[2 * i + 1], -1);
    pg_name (&p, "L5a", count);
    cb (&p, user);
    count++;
    p.is2d = 1;
    pg_name (&p, "L5a2", count);
    cb (&p, user);
    count++;
  }
  /* many arrays with resampled sources: the offset registers of ldres* come on top of the 12 array pointers, so that
   * pointers spill to the executor structure (the only 64-bit immediate-to-memory updates the x86 back ends emit) */
  {
    int k, lin, lastfirst;
    /* lastfirst: the resampled sources are the last declared ones (the first to lose their registers) */
    for (lastfirst = 0; lastfirst < 2; lastfirst++) for (lin = 0; lin < 2; lin++) for (k = 1; k <= 3; k++) {
      VProg p;
      int d[4], s[8], t[3], c0, c1, i;
      memset (&p, 0, sizeof (p));
      for (i = 0; i < 4; i++) d[i] = vprog_addvar (&p, VK_D, 4);
      if (lastfirst) for (i = 7; i >= 0; i--) s[i] = vprog_addvar (&p, VK_S, 4);
      else for (i = 0; i < 8; i++) s[i] = vprog_addvar (&p, VK_S, 4);
      for (i = 0; i < k; i++) t[i] = vprog_addvar (&p, VK_T, 4);
      c0 = vprog_addvar (&p, VK_C, 4); p.v[c0].cval = 0;
      c1 = vprog_addvar (&p, VK_C, 4); p.v[c1].cval = 0x10000;
      for (i = 0; i < k; i++) vprog_addinsn (&p, lin ? "ldreslinl" : "ldresnearl", 0, 4, t[i], s[i], c0, c1);
      /* resampled sources are s1..sk; the plain operands come from the other sources only */
      for (i = 0; i < 4; i++) vprog_addinsn (&p, "addl", 0, 3, d[i], i < k ? t[i] : s[k + (2 * i) % (8 - k)], s[k + (2 * i + 1) % (8 - k)], -1);
      pg_name (&p, "L5r", count);
      cb (&p, user);
      count++;
    }
  }
  /* a source that is resampled and also read directly */
  {
    int lin;
    for (lin = 0; lin < 2; lin++) {
      VProg p;
      int d, s, t, c0, c1;
      memset (&p, 0, sizeof (p));
      d = vprog_addvar (&p, VK_D, 4);
      s = vprog_addvar (&p, VK_S, 4);
      t = vprog_addvar (&p, VK_T, 4);
      c0 = vprog_addvar (&p, VK_C, 4); p.v[c0].cval = 0;
      c1 = vprog_addvar (&p, VK_C, 4); p.v[c1].cval = 0x10000;
      vprog_addinsn (&p, lin ? "ldreslinl" : "ldresnearl", 0, 4, t, s, c0, c1);
      vprog_addinsn (&p, "addl", 0, 3, d, t, s, -1);
      pg_name (&p, "L5m", count);
      cb (&p, user);
      count++;
    }
  }
  /* constant n: every n in 1..70 for a byte and a word program, 1-D and 2-D with constant m */
  for (sz = 1; sz <= 4; sz *= 2) {
    for (cn = 1; cn <= 70; cn++) {
      VProg p;
      int d, s1, s2, v2;
      for (v2 = 0; v2 < 2; v2++) {
        memset (&p, 0, sizeof (p));
        d = vprog_addvar (&p, VK_D, sz);
        s1 = vprog_addvar (&p, VK_S, sz);
        s2 = vprog_addvar (&p, VK_S, sz);
        vprog_addinsn (&p, addn[sz], 0, 3, d, s1, s2, -1);
        p.cn = cn;
        if (v2) { p.is2d = 1; p.cm = 3; }
        pg_name (&p, "L5n", count);
        cb (&p, user);
        count++;
      }
    }
  }
  /* several accumulators (1..4, the executor has four slots), 16- and 32-bit and the two-source accsadubl, with 0..6
   * temporaries live across the accumulating instructions: every accumulator is reduced and stored through its own
   * scratch register after the loop, so the later ones use the upper registers */
  {
    static const char *accn[] = { "accw", "accl", "accsadubl" };
    static const int accsz[] = { 2, 4, 4 }, srcsz[] = { 2, 4, 1 };
    int ai, nacc, fill;
    for (ai = 0; ai < 3; ai++) for (nacc = 1; nacc <= 4; nacc++) for (fill = 0; fill <= 6; fill += 2) {
      VProg p;
      int a[4], s1, s2 = -1, d = -1, c = -1, t[8], i;
      memset (&p, 0, sizeof (p));
      if (fill) d = vprog_addvar (&p, VK_D, srcsz[ai]);
      for (i = 0; i < nacc; i++) a[i] = vprog_addvar (&p, VK_A, accsz[ai]);
      s1 = vprog_addvar (&p, VK_S, srcsz[ai]);
      if (ai == 2) s2 = vprog_addvar (&p, VK_S, srcsz[ai]);
      if (fill) { c = vprog_addvar (&p, VK_C, srcsz[ai]); p.v[c].cval = 3; }
      for (i = 0; i < fill; i++) t[i] = vprog_addvar (&p, VK_T, srcsz[ai]);
      for (i = 0; i < fill; i++) vprog_addinsn (&p, addn[srcsz[ai]], 0, 3, t[i], i ? t[i - 1] : s1, c, -1);
      for (i = 0; i < nacc; i++) {
        int src = fill ? t[i % fill] : s1;
        if (ai == 2) vprog_addinsn (&p, accn[ai], 0, 3, a[i], src, s2, -1);
        else vprog_addinsn (&p, accn[ai], 0, 2, a[i], src, -1, -1);
      }
      for (i = 1; i < fill; i++) vprog_addinsn (&p, xorn[srcsz[ai]], 0, 3, t[0], t[0], t[i], -1);
      if (fill) vprog_addinsn (&p, addn[srcsz[ai]], 0, 3, d, t[0], s1, -1);
      pg_name (&p, "L5c", count);
      cb (&p, user);
      count++;
    }
  }
  /* L5d: the result of every integer opcode accumulated (oa t1, ...; accX a1, t1): what a rule leaves in the parts of a
   * register that are not part of its result (narrowing and widening rules, two-destination rules) meets the
   * horizontal sum; with the source element width 1, 2, 4 and 8 the accumulated part of the register is a quarter, a
   * half or all of it */
  {
    int oi;
    for (oi = 0; oi < v_nops; oi++) {
      const OrcStaticOpcode *oa = &v_ops[oi];
      VProg p;
      int a1, s0, t1, t1b = -1, a2 = -1;
      const char *acc;
      if (!pg_chainable (oa, PG_INT) || op_is_float (oa)) continue;
      acc = oa->dest_size[0] == 2 ? "accw" : oa->dest_size[0] == 4 ? "accl" : oa->dest_size[0] == 1 ? "accsadubl" : NULL;
      if (!acc) continue;
      memset (&p, 0, sizeof (p));
      a1 = vprog_addvar (&p, VK_A, oa->dest_size[0] == 1 ? 4 : oa->dest_size[0]);
      s0 = vprog_addvar (&p, VK_S, oa->src_size[0]);
      t1 = vprog_addvar (&p, VK_T, oa->dest_size[0]);
      if (oa->dest_size[1]) t1b = vprog_addvar (&p, VK_T, oa->dest_size[1]);
      pg_chain_insn (&p, oa, t1, t1b, s0, 0, 1);
      if (oa->dest_size[0] == 1) {
        int s9 = vprog_addvar (&p, VK_S, 1);
        vprog_addinsn (&p, acc, 0, 3, a1, t1, s9, -1);
      } else vprog_addinsn (&p, acc, 0, 2, a1, t1, -1, -1);
      if (t1b >= 0 && (oa->dest_size[1] == 2 || oa->dest_size[1] == 4)) {
        a2 = vprog_addvar (&p, VK_A, oa->dest_size[1]);
        vprog_addinsn (&p, oa->dest_size[1] == 2 ? "accw" : "accl", 0, 2, a2, t1b, -1, -1);
      } else if (t1b >= 0) {
        int d3 = vprog_addvar (&p, VK_D, oa->dest_size[1]);
        vprog_addinsn (&p, oa->dest_size[1] == 1 ? "copyb" : "copyq", 0, 2, d3, t1b, -1, -1);
      }
      pg_name (&p, "L5d", count);
      cb (&p, user);
      count++;
    }
  }
  return count;
}

/* LB: programs whose compile-time integers sit on the boundaries of the one-byte / escaped encoding used when a
 * program is serialised (constant n and m of 253..257; the generated wrappers rebuild the program from that form). */
static long pgen_LB (PgenCb cb, void *user)
{
  long count = 0;
  int k, two;
  for (two = 0; two < 2; two++) for (k = 253; k <= 257; k++) {
    VProg p;
    int d, s1, s2;
    memset (&p, 0, sizeof (p));
    d = vprog_addvar (&p, VK_D, 1);
    s1 = vprog_addvar (&p, VK_S, 1);
    s2 = vprog_addvar (&p, VK_S, 1);
    vprog_addinsn (&p, "addb", 0, 3, d, s1, s2, -1);
    if (two) { p.is2d = 1; p.cn = 8; p.cm = k; } else p.cn = k;
    pg_name (&p, "LB", count);
    cb (&p, user);
    count++;
  }
  return count;
}

/* L6: every plain opcode (and the accumulating ones) under register pressure: k filler temporaries are live across
 * the tested instruction, so that its operands are allocated in the upper registers (xmm8..15: REX/VEX extension
 * bits, three-byte VEX forms).  All-array operands, x1, 1-D. */
static long pgen_L6 (PgenCb cb, void *user, int classes)
{
  long count = 0;
  int oi, ki;
  static const int ks[] = { 7, 9, 12 };
  for (oi = 0; oi < v_nops; oi++) {
    const OrcStaticOpcode *o = &v_ops[oi];
    int nsrc = op_nsrc (o), isf = op_is_float (o);
    if (o->flags & (ORC_STATIC_OPCODE_LOAD | ORC_STATIC_OPCODE_STORE)) continue;
    if (isf && !(classes & PG_FLOAT)) continue;
    if (!isf && !(classes & PG_INT)) continue;
    for (ki = 0; ki < 3; ki++) {
      VProg p;
      int k = ks[ki], i, args[4], na = 0, f[12], sf, df;
      memset (&p, 0, sizeof (p));
      if (o->flags & ORC_STATIC_OPCODE_ACCUMULATOR) args[na++] = vprog_addvar (&p, VK_A, o->dest_size[0]);
      else {
        args[na++] = vprog_addvar (&p, VK_D, o->dest_size[0]);
        if (o->dest_size[1]) args[na++] = vprog_addvar (&p, VK_D, o->dest_size[1]);
      }
      for (i = 0; i < nsrc; i++) {
        if ((o->flags & ORC_STATIC_OPCODE_SCALAR) && i >= 1) {
          int c = vprog_addvar (&p, VK_C, o->src_size[i]);
          p.v[c].cval = op_is_shift (o) ? 3 : 2;
          args[na++] = c;
        } else args[na++] = vprog_addvar (&p, VK_S, o->src_size[i]);
      }
      sf = vprog_addvar (&p, VK_S, 4);
      df = vprog_addvar (&p, VK_D, 4);
      for (i = 0; i < k; i++) f[i] = vprog_addvar (&p, VK_T, 4);
      for (i = 0; i < k; i++) vprog_addinsn (&p, "copyl", 0, 2, f[i], sf, -1, -1);
      vprog_addinsn (&p, o->name, 0, na, args[0], na > 1 ? args[1] : -1, na > 2 ? args[2] : -1, na > 3 ? args[3] : -1);
      for (i = 1; i < k; i++) vprog_addinsn (&p, "xorl", 0, 3, f[0], f[0], f[i], -1);
      vprog_addinsn (&p, "copyl", 0, 2, df, f[0], -1, -1);
      pg_name (&p, "L6", count);
      cb (&p, user);
      count++;
    }
  }
  /* memory operands through the upper general registers: the tested load reads the last of 8 sources and its result
   * is stored to the last of 4 destinations (pointers in r8..r15 or spilled: REX.B, SIB for r12, disp8 for r13) */
  if (classes & PG_INT) {
    for (oi = 0; oi < v_nops; oi++) {
      const OrcStaticOpcode *o = &v_ops[oi];
      int sp, nsp;
      if (!(o->flags & ORC_STATIC_OPCODE_LOAD) || op_is_loadp (o)) continue;
      nsp = op_is_loadoff (o) ? 3 : op_is_ldres (o) ? 2 : 1;
      for (sp = 0; sp < nsp; sp++) {
        VProg p;
        int d[4], sr[8], i, t, c1 = -1, c2 = -1, nsrc = op_nsrc (o), sz = o->dest_size[0];
        static const char *copyn[] = { "", "copyb", "copyw", "", "copyl", "", "", "", "copyq" };
        static const int offs[] = { 1, -1, 3 };
        static const int st[] = { 0, 0x8000 }, inc[] = { 0x10000, 0x18000 };
        memset (&p, 0, sizeof (p));
        for (i = 0; i < 3; i++) d[i] = vprog_addvar (&p, VK_D, 4);
        d[3] = vprog_addvar (&p, VK_D, sz);
        for (i = 0; i < 7; i++) sr[i] = vprog_addvar (&p, VK_S, 4);
        sr[7] = vprog_addvar (&p, VK_S, o->src_size[0]);
        t = vprog_addvar (&p, VK_T, sz);
        if (nsrc > 1) { c1 = vprog_addvar (&p, VK_C, o->src_size[1]); p.v[c1].cval = op_is_loadoff (o) ? offs[sp] : st[sp]; }
        if (nsrc > 2) { c2 = vprog_addvar (&p, VK_C, o->src_size[2]); p.v[c2].cval = inc[sp]; }
        for (i = 0; i < 3; i++) vprog_addinsn (&p, "addl", 0, 3, d[i], sr[2 * i], sr[2 * i + 1], -1);
        vprog_addinsn (&p, o->name, 0, 1 + nsrc, t, sr[7], c1, c2);
        vprog_addinsn (&p, copyn[sz], 0, 2, d[3], t, -1, -1);
        vprog_addinsn (&p, "addl", 0, 3, d[0], d[0], sr[6], -1);
        pg_name (&p, "L6m", count);
        cb (&p, user);
        count++;
      }
    }
  }
  /* L6k: every plain opcode between two uses of function-wide cached constants.  shrub by a constant (a byte mask)
   * and div255w (0x8081) make the compiler keep a constant in a register for the whole function; both are used before
   * and again after the tested instruction, with 0 or 4 more temporaries live, so a scratch register the tested rule
   * takes must not be one of them (the damage would show in the second use and in every later iteration) */
  if (classes & PG_INT) {
    int nf;
    for (oi = 0; oi < v_nops; oi++) for (nf = 0; nf <= 4; nf += 4) {
      const OrcStaticOpcode *o = &v_ops[oi];
      int nsrc = op_nsrc (o);
      VProg p;
      int args[4], na = 0, i, k1, k2, u1, u2, e1, e2, c1, f[4];
      if (o->flags & (ORC_STATIC_OPCODE_LOAD | ORC_STATIC_OPCODE_STORE)) continue;
      if (op_is_float (o)) continue;
      if (o->dest_size[1]) continue;	/* four destinations at most: the tested one and the two constant users' */
      memset (&p, 0, sizeof (p));
      if (o->flags & ORC_STATIC_OPCODE_ACCUMULATOR) args[na++] = vprog_addvar (&p, VK_A, o->dest_size[0]);
      else args[na++] = vprog_addvar (&p, VK_D, o->dest_size[0]);
      for (i = 0; i < nsrc; i++) {
        if ((o->flags & ORC_STATIC_OPCODE_SCALAR) && i >= 1) {
          int c = vprog_addvar (&p, VK_C, o->src_size[i]);
          p.v[c].cval = op_is_shift (o) ? 3 : 2;
          args[na++] = c;
        } else args[na++] = vprog_addvar (&p, VK_S, o->src_size[i]);
      }
      k1 = vprog_addvar (&p, VK_S, 1); k2 = vprog_addvar (&p, VK_S, 2);
      e1 = vprog_addvar (&p, VK_D, 1); e2 = vprog_addvar (&p, VK_D, 2);
      u1 = vprog_addvar (&p, VK_T, 1); u2 = vprog_addvar (&p, VK_T, 2);
      c1 = vprog_addvar (&p, VK_C, 1); p.v[c1].cval = 1;
      for (i = 0; i < nf; i++) f[i] = vprog_addvar (&p, VK_T, 2);
      vprog_addinsn (&p, "shrub", 0, 3, u1, k1, c1, -1);
      vprog_addinsn (&p, "div255w", 0, 2, u2, k2, -1, -1);
      for (i = 0; i < nf; i++) vprog_addinsn (&p, "copyw", 0, 2, f[i], k2, -1, -1);
      vprog_addinsn (&p, o->name, 0, na, args[0], na > 1 ? args[1] : -1, na > 2 ? args[2] : -1, na > 3 ? args[3] : -1);
      for (i = 0; i < nf; i++) vprog_addinsn (&p, "xorw", 0, 3, u2, u2, f[i], -1);
      vprog_addinsn (&p, "shrub", 0, 3, e1, u1, c1, -1);
      vprog_addinsn (&p, "div255w", 0, 2, e2, u2, -1, -1);
      pg_name (&p, "L6k", count);
      cb (&p, user);
      count++;
    }
  }
  return count;
}

#endif
