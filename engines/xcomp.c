/* xcomp: compilation always terminates, classifies its result and never
 * corrupts memory (C05).  ASan + bounds build, supervised worker with a
 * per-case watchdog.  Spaces (each enumerated completely):
 *  1 operand-kind space: every opcode x every assignment of its operand slots
 *    to {dest array, source array, initialised temp, uninitialised temp,
 *    constant, parameter, accumulator} x {matching, wrong} sizes x prefix
 *    {none, x2, x4, x2|x4}
 *  2 limit space: program lengths around every table limit x instruction
 *    shapes; variable counts of every class from 1 to limit+1; number of
 *    arrays 1..12; distinct constants 1..24; code size towards 64 KiB
 *  3 target x flag space: all 8 registered targets; flags default, 0,
 *    all-ones and every single-bit deviation from default (every subset of the
 *    feature bits for a representative program set)
 * Oracle: the call returns (watchdog), no signal/abort/sanitizer report, the
 * result class matches the state left behind, successful native code for a
 * host target runs, a non-fatal failure leaves the program runnable by
 * emulation, orc_program_free is clean. */
#include "pgen.h"
#include "vrun.h"
#include <orc/orcverif.h>

static int shard, nshards, thorough, space;
static long only_idx = -1;
static const char *tnames[] = { "sse", "avx", "mmx", "c", "c64x-c", "neon", "altivec", "mips" };
#define NT 8
static OrcTarget *targets[NT];
static long g_idx, st_programs, st_compiles, st_ok, st_fail, st_fatal, st_runs, st_emul, st_viol;
static char *seen[400];
static int nseen, nsamples;

static void viol (const char *cls, const char *target, const char *sig, const char *msg, const char *text)
{
  char key[500];
  int i;
  st_viol++;
  snprintf (key, sizeof (key), "C05|%s|%s|%s", cls, target, sig);
  for (i = 0; i < nseen; i++) if (!strcmp (seen[i], key)) return;
  if (nseen < 400) seen[nseen++] = strdup (key);
  v_out ("{\"t\":\"viol\",\"key\":\"%s\",\"what\":\"target %s: %s; program: %s\",\"replay\":{\"program\":\"%s\",\"target\":\"%s\"}}", v_esc (key), target, v_esc (msg), v_esc (text), v_esc (text), target);
}

/* chunk accounting through the walker */
static unsigned char *exec_lo[16], *exec_hi[16];
static int nreg;
static void walk_cb (void *u, int region, void *w, void *x, int rsize, int off, int size, int used)
{
  (void) u; (void) w; (void) off; (void) size; (void) used;
  if (region < 16) { exec_lo[region] = x; exec_hi[region] = (unsigned char *) x + rsize; if (region + 1 > nreg) nreg = region + 1; }
}
static int in_exec_region (void *p)
{
  int i;
  nreg = 0;
  orc_verif_codemem_walk (walk_cb, NULL);
  for (i = 0; i < nreg; i++) if ((unsigned char *) p >= exec_lo[i] && (unsigned char *) p < exec_hi[i]) return 1;
  return 0;
}

/* compile p for target t with flags and check the result/state contract */
static int g_noreset;
static void try_compile (OrcProgram * p, int t, unsigned flags, int flagkind, const char *sig, const char *text, int runnable)
{
  OrcCompileResult r;
  char key[400], what[300];
  int native;
  if (!targets[t]) return;
  snprintf (key, sizeof (key), "C05|died|%s|%s", tnames[t], sig);
  v_case (g_idx, key, text);
  v_watchdog (20);
  if (!g_noreset) orc_program_reset (p);	/* second pass of the limit space: recompile over whatever the previous compile left */
  r = orc_program_compile_full (p, targets[t], flags);
  st_compiles++;
  native = p->code_exec && p->code_exec != (void *) orc_executor_emulate;
  if (ORC_COMPILE_RESULT_IS_FATAL (r)) {
    st_fatal++;
    if (p->orccode && p->orccode->chunk) { snprintf (what, sizeof (what), "fatal result 0x%x but a code chunk is still allocated", r); viol ("fatal-leaves-code", tnames[t], sig, what, text); }
    if (native && p->orccode && p->code_exec == (void *) p->orccode->exec && p->orccode->chunk) { snprintf (what, sizeof (what), "fatal result 0x%x leaves executable code installed", r); viol ("fatal-leaves-code", tnames[t], sig, what, text); }
  } else if (ORC_COMPILE_RESULT_IS_SUCCESSFUL (r)) {
    st_ok++;
    if (!p->orccode) { viol ("success-no-code", tnames[t], sig, "successful result without a code object", text); return; }
    {
      /* a successful compile must not contain operands the code generator itself marks as invalid */
      const char *a = orc_program_get_asm_code (p);
      if (a && (strstr (a, "UNALLOCATED") || strstr (a, "%ERROR") || strstr (a, "(null)"))) {
        const char *q = strstr (a, "UNALLOCATED") ? strstr (a, "UNALLOCATED") : strstr (a, "%ERROR") ? strstr (a, "%ERROR") : strstr (a, "(null)");
        const char *ls = q, *le = q;
        while (ls > a && ls[-1] != '\n') ls--;
        while (*le && *le != '\n') le++;
        snprintf (what, sizeof (what), "successful result 0x%x (flags 0x%x) but the generated code uses an unallocated/invalid register: `%.*s`", r, flags, (int) (le - ls > 120 ? 120 : le - ls), ls);
        viol ("success-invalid-operand", tnames[t], sig, what, text);
      }
    }
    if (targets[t]->executable) {
      if (!p->orccode->exec || p->orccode->code_size <= 0) { snprintf (what, sizeof (what), "successful result 0x%x but exec=%p size=%d", r, (void *) p->orccode->exec, p->orccode->code_size); viol ("success-no-code", tnames[t], sig, what, text); }
      else if (!in_exec_region ((void *) p->orccode->exec)) viol ("success-no-code", tnames[t], sig, "successful result but the entry point is outside every executable region", text);
      else if (runnable && (flagkind == 0 || flagkind == 2)) {	/* 2: differs from the default only in frame pointer / jump size */
        /* callable: run it on small inputs (no value oracle here: that is C01's subject) */
        VRunCfg c;
        VArena A;
        OrcExecutor ex;
        int sig_, k;
        for (k = 0; k < 3; k++) {
          memset (&c, 0, sizeof (c));
          c.n = p->constant_n > 0 ? p->constant_n : (k == 0 ? 0 : k == 1 ? 5 : 37);
          c.m = p->is_2d ? 2 : 1;
          vr_arena_alloc (&A, p, &c); vr_arena_fill (&A, &c); vr_exec_setup (&ex, p, &A, &c);
          V_CONFINED (orc_executor_run (&ex), sig_);
          st_runs++;
          vr_arena_free (&A);
          if (sig_) { snprintf (what, sizeof (what), "successful result but calling the code raises signal %d (n=%d)", sig_, c.n); viol ("success-crash", tnames[t], sig, what, text); break; }
        }
      }
    }
  } else {
    st_fail++;
    if (!p->orccode) { snprintf (what, sizeof (what), "non-fatal failure 0x%x left no code object: the program cannot be emulated", r); viol ("nonfatal-not-emulable", tnames[t], sig, what, text); }
    else {
      /* a compile that reports failure must not leave the half-generated code installed: what runs is the emulator
       * (or the program's backup function; these programs have none) */
      if (native) { snprintf (what, sizeof (what), "non-fatal failure 0x%x (flags 0x%x) but the program's entry point is neither the emulator nor a backup function", r, flags); viol ("nonfatal-native-installed", tnames[t], sig, what, text); }
      if (p->orccode->exec && (void *) p->orccode->exec != (void *) orc_executor_emulate && p->orccode->chunk) { snprintf (what, sizeof (what), "non-fatal failure 0x%x (flags 0x%x) but the code object points at generated code", r, flags); viol ("nonfatal-native-installed", tnames[t], sig, what, text); }
    }
    if (p->orccode && runnable) {
      VRunCfg c;
      VArena A, R;
      OrcExecutor ex, exr;
      int sig_;
      char m2[200];
      memset (&c, 0, sizeof (c));
      c.n = p->constant_n > 0 ? p->constant_n : 19;
      c.m = p->is_2d ? 2 : 1;
      vr_arena_alloc (&A, p, &c); vr_arena_fill (&A, &c); vr_exec_setup (&ex, p, &A, &c);
      vr_arena_alloc (&R, p, &c); vr_arena_fill (&R, &c); vr_exec_setup (&exr, p, &R, &c);
      V_CONFINED (orc_executor_run (&ex), sig_);
      st_emul++;
      if (sig_) { snprintf (what, sizeof (what), "non-fatal failure 0x%x but running the program (emulation fallback) raises signal %d", r, sig_); viol ("nonfatal-not-emulable", tnames[t], sig, what, text); }
      else {
        orc_executor_emulate (&exr);
        if (vr_compare (&A, &R, &c, &ex, &exr, m2, sizeof (m2))) { snprintf (what, sizeof (what), "non-fatal failure 0x%x (flags 0x%x): running the program does not give the emulation result: %s", r, flags, m2); viol ("nonfatal-wrong-result", tnames[t], sig, what, text); }
      }
      vr_arena_free (&A);
      vr_arena_free (&R);
    }
  }
}

static void all_targets (OrcProgram * p, const char *sig, const char *text, int runnable)
{
  int t;
  for (t = 0; t < NT; t++) {
    if (!targets[t]) continue;
    try_compile (p, t, orc_target_get_default_flags (targets[t]), 0, sig, text, runnable);
  }
}

/* ------------------------------------------------------------ space 1 */
enum { K_D, K_S, K_TI, K_TU, K_C, K_P, K_A, K_N };
static const char kc[] = "DSTUCPA";

static void space1 (long start)
{
  int oi;
  for (oi = 0; oi < v_nops; oi++) {
    const OrcStaticOpcode *o = &v_ops[oi];
    int nsrc = op_nsrc (o), ndst = op_ndst (o), dk, s0, s1, wrong, pf;
    for (dk = 0; dk < K_N; dk++) {
      if (dk == K_TU || dk == K_P) continue;	/* dest kinds: D S T C A */
      for (s0 = 0; s0 < K_N; s0++) for (s1 = 0; s1 < (nsrc > 1 ? K_N : 1); s1++) for (wrong = 0; wrong < 2; wrong++) for (pf = 0; pf < 4; pf++) {
        long idx = g_idx++;
        OrcProgram *p;
        char sig[120], text[300];
        int mult = pf == 1 ? 2 : pf == 2 ? 4 : pf == 3 ? 2 : 1, args[5], na = 0, k, tinit = -1, runnable;
        int kinds[3];
        if (idx < start || (idx % nshards) != shard) continue;
        if (only_idx >= 0 && idx != only_idx) continue;
        if (!thorough && nsrc > 1 && (idx % 3) != 0 && !(dk == K_D && (s0 == K_S || s1 == K_S))) continue;	/* quick: thin the exotic corners */
        kinds[0] = dk; kinds[1] = s0; kinds[2] = s1;
        p = orc_program_new ();
        orc_program_set_name (p, "xc1");
        for (k = 0; k < 1 + nsrc && k < 3; k++) {
          int isdst = k == 0, sz = (isdst ? o->dest_size[0] : o->src_size[k - 1]) * mult, v = 0;
          char nm[8];
          if (wrong) sz = sz == 8 ? 4 : sz * 2 > 8 ? 1 : sz * 2;
          if (sz > 8) sz = 8;
          sprintf (nm, "v%d", k);
          switch (kinds[k]) {
            case K_D: v = orc_program_add_destination (p, sz, nm); break;
            case K_S: v = orc_program_add_source (p, sz, nm); break;
            case K_TI: v = orc_program_add_temporary (p, sz, nm); tinit = v; break;
            case K_TU: v = orc_program_add_temporary (p, sz, nm); break;
            case K_C: v = sz == 8 ? orc_program_add_constant_int64 (p, 8, 3, nm) : orc_program_add_constant (p, sz, 3, nm); break;
            case K_P: v = sz == 8 ? orc_program_add_parameter_int64 (p, 8, nm) : orc_program_add_parameter (p, sz, nm); break;
            case K_A: v = orc_program_add_accumulator (p, sz > 4 ? 4 : sz, nm); break;
          }
          if (kinds[k] == K_TI && !isdst) {
            /* initialise the temporary from a constant first */
            static const char *lp[] = { "", "loadpb", "loadpw", "", "loadpl", "", "", "", "loadpq" };
            int c = sz == 8 ? orc_program_add_constant_int64 (p, 8, 5, "ci") : orc_program_add_constant (p, sz, 5, k == 1 ? "ci1" : "ci2");
            if (lp[sz][0]) orc_program_append_2 (p, lp[sz], 0, v, c, -1, -1);
          }
          args[na++] = v;
          if (isdst && ndst == 2) { args[na++] = orc_program_add_destination (p, o->dest_size[1] * mult, "v0b"); }
        }
        (void) tinit;
        /* third source (resampling loads): a constant */
        if (nsrc > 2) args[na++] = orc_program_add_constant (p, o->src_size[2], 0x10000, "c3");
        orc_program_append_2 (p, o->name, pf == 1 ? 1 : pf == 2 ? 2 : pf == 3 ? 3 : 0, args[0], na > 1 ? args[1] : -1, na > 2 ? args[2] : -1, na > 3 ? args[3] : -1);
        snprintf (sig, sizeof (sig), "%s/%c<%c%c/%s/pf%d", o->name, kc[dk], kc[s0], nsrc > 1 ? kc[s1] : '-', wrong ? "wrongsize" : "size", pf);
        snprintf (text, sizeof (text), "%s dest=%c src=%c%c %s prefix=%s", o->name, kc[dk], kc[s0], nsrc > 1 ? kc[s1] : '-', wrong ? "wrong sizes" : "matching sizes", pf == 0 ? "none" : pf == 1 ? "x2" : pf == 2 ? "x4" : "x2|x4");
        st_programs++;
        /* runnable = sane enough that executing it is defined: no uninitialised temporary read, no accumulator/constant as plain operand mix-ups */
        runnable = dk != K_C && dk != K_S && s0 != K_TU && s1 != K_TU && s0 != K_A && s1 != K_A && !(dk == K_A && !(o->flags & ORC_STATIC_OPCODE_ACCUMULATOR))
            && !((o->flags & ORC_STATIC_OPCODE_ACCUMULATOR) && dk != K_A);
        all_targets (p, sig, text, runnable);
        orc_program_free (p);
        if (nsamples < 2 && (idx % 30011) == 9) { nsamples++; v_out ("{\"t\":\"sample\",\"space\":1,\"case\":\"%s\",\"targets\":8}", text); }
      }
    }
  }
}

/* ------------------------------------------------------------ space 2 */
static void limits_case (OrcProgram * p, const char *sig, long start)
{
  long idx = g_idx++;
  if (idx >= start && (idx % nshards) == shard) {
    st_programs++;
    all_targets (p, sig, sig, 1);
    /* again without orc_program_reset() between the compiles: a compile that succeeds for one target is followed by one
     * that fails (fatally, or not) for the next on the same program object, then the program is freed */
    g_noreset = 1;
    all_targets (p, sig, sig, 0);
    all_targets (p, sig, sig, 0);
    g_noreset = 0;
  }
  orc_program_free (p);
}

static void space2 (long start)
{
  static const int lens[] = { 1, 2, 3, 20, 33, 34, 48, 49, 50, 51, 60, 70, 80, 90, 97, 98, 99, 100 };
  static const char *addn[] = { "", "addb", "addw", "", "addl", "", "", "", "addq" };
  int li, shape, sz, k, n;
  char sig[100], nm[12];
  /* program length x instruction shape (how many loads/stores/temporaries rewriting adds per instruction) */
  for (li = 0; li < 18; li++) for (shape = 0; shape < 5; shape++) for (sz = 1; sz <= 8; sz *= 2) {
    OrcProgram *p = orc_program_new ();
    int L = lens[li];
    orc_program_set_name (p, "xc2");
    orc_program_add_destination (p, sz, "d1");
    orc_program_add_source (p, sz, "s1");
    orc_program_add_source (p, sz, "s2");
    orc_program_add_temporary (p, sz, "t1");
    orc_program_add_temporary (p, sz, "t2");
    if (sz == 8) orc_program_add_constant_int64 (p, 8, 7, "c1"); else orc_program_add_constant (p, sz, 7, "c1");
    orc_program_add_parameter (p, sz == 8 ? 4 : sz, "p1");
    for (k = 0; k < L; k++) {
      int last = k == L - 1;
      switch (shape) {
        case 0: orc_program_append_str (p, addn[sz], "d1", "s1", "s2"); break;	/* array,array -> array: 2 loads + 1 store each */
        case 1: orc_program_append_str (p, addn[sz], "d1", "d1", "c1"); break;	/* in place with a constant */
        case 2: orc_program_append_str (p, addn[sz], last ? "d1" : "t1", k == 0 ? "s1" : "t1", "s2"); break;	/* temp chain */
        case 3: orc_program_append_str (p, addn[sz], last ? "d1" : (k & 1 ? "t1" : "t2"), k == 0 ? "s1" : (k & 1 ? "t2" : "t1"), sz == 8 ? "c1" : "p1"); break;
        case 4: orc_program_append_str (p, addn[sz], last ? "d1" : "t1", k == 0 ? "s1" : "t1", "c1"); break;
      }
    }
    snprintf (sig, sizeof (sig), "len=%d/shape=%d/size=%d", L, shape, sz);
    limits_case (p, sig, start);
  }
  /* every fill level of the instruction table: k one-slot instructions (temporaries only), then a tail whose
   * expansion (loads + instruction + stores) differs per operand kind, so that each kind meets the table end at
   * every distance */
  for (k = 0; k <= 101; k++) for (shape = 0; shape < 8; shape++) for (sz = 1; sz <= 4; sz *= 4) {
    OrcProgram *p = orc_program_new ();
    int i;
    static const char *copyn[] = { "", "copyb", "copyw", "", "copyl" };
    orc_program_set_name (p, "xc2f");
    orc_program_add_destination (p, sz, "d1");
    orc_program_add_source (p, sz, "s1");
    orc_program_add_source (p, sz, "s2");
    orc_program_add_temporary (p, sz, "t1");
    orc_program_add_temporary (p, sz, "t2");
    orc_program_add_constant (p, sz, 7, "c1");
    orc_program_add_parameter (p, sz, "p1");
    orc_program_append_ds_str (p, copyn[sz], "t1", "s1");
    orc_program_append_ds_str (p, copyn[sz], "t2", "s2");
    for (i = 0; i < k; i++) orc_program_append_str (p, addn[sz], "t1", "t1", "t2");
    switch (shape) {
      case 0: orc_program_append_str (p, addn[sz], "d1", "t1", "t2"); break;
      case 1: orc_program_append_str (p, addn[sz], "d1", "d1", "s1"); break;	/* destination read as a source */
      case 2: orc_program_append_str (p, addn[sz], "d1", "s1", "d1"); break;
      case 3: orc_program_append_str (p, addn[sz], "d1", "d1", "d1"); break;
      case 4: orc_program_append_str (p, addn[sz], "d1", "d1", "c1"); break;
      case 5: orc_program_append_str (p, addn[sz], "d1", "s1", "s2"); break;
      case 6: orc_program_append_str (p, addn[sz], "d1", "t1", "p1"); break;
      case 7: orc_program_append_str (p, addn[sz], "d1", "d1", "s1"); orc_program_append_str (p, addn[sz], "d1", "d1", "s2"); break;
    }
    snprintf (sig, sizeof (sig), "fill=%d/tail=%d/size=%d", k, shape, sz);
    limits_case (p, sig, start);
  }
  /* register pressure x resampling: nd destinations + ns sources of which source j is resampled, for the four
   * x86 environments {64,32-bit} x {frame pointer}: the resampled array's pointer and offset registers are the
   * first, the last or beyond the last general registers available */
  {
    int nd, ns, j, lin, e, t;
    for (nd = 1; nd <= 4; nd++) for (ns = 1; ns <= 8; ns++) for (j = 0; j < ns; j++) for (lin = 0; lin < 2; lin++) {
      long idx = g_idx++;
      OrcProgram *p;
      int i;
      if (!(idx >= start && (idx % nshards) == shard)) continue;
      if (!thorough && lin && (nd + ns + j) % 3) continue;
      p = orc_program_new ();
      orc_program_set_name (p, "xc2r");
      for (i = 0; i < nd; i++) { sprintf (nm, "d%d", i + 1); orc_program_add_destination (p, 4, nm); }
      for (i = 0; i < ns; i++) { sprintf (nm, "s%d", i + 1); orc_program_add_source (p, 4, nm); }
      orc_program_add_temporary (p, 4, "t1");
      orc_program_add_constant (p, 4, 0, "c1");
      orc_program_add_constant (p, 4, 0x10000, "c2");
      sprintf (nm, "s%d", j + 1);
      orc_program_append_2 (p, lin ? "ldreslinl" : "ldresnearl", 0, orc_program_find_var_by_name (p, "t1"), orc_program_find_var_by_name (p, nm),
          orc_program_find_var_by_name (p, "c1"), orc_program_find_var_by_name (p, "c2"));
      for (i = 0; i < nd; i++) {
        char d[8], b[8];
        sprintf (d, "d%d", i + 1);
        sprintf (b, "s%d", ns > 1 ? (j + 1 + i % (ns - 1)) % ns + 1 : 1);
        if (ns > 1) orc_program_append_str (p, "addl", d, "t1", b); else orc_program_append_str (p, "addl", d, "t1", "t1");
      }
      snprintf (sig, sizeof (sig), "resample/dest=%d,src=%d,resampled=s%d/%s", nd, ns, j + 1, lin ? "lin" : "near");
      st_programs++;
      for (t = 0; t < 3; t++) {
        unsigned def;
        if (!targets[t]) continue;
        def = orc_target_get_default_flags (targets[t]);
        for (e = 0; e < 4; e++) {
          unsigned fv = (def & ~((1u << 9) | (1u << 7))) | ((e & 1) ? 0 : (1u << 9)) | ((e & 2) ? (1u << 7) : 0);
          char text[200];
          snprintf (text, sizeof (text), "%s with target flags 0x%x (%s-bit%s)", sig, fv, (e & 1) ? "32" : "64", (e & 2) ? ", frame pointer" : "");
          try_compile (p, t, fv, fv == def ? 0 : (e & 1) ? 1 : 2, sig, text, 1);
        }
      }
      orc_program_free (p);
    }
  }
  /* vector register pressure x environment: k temporaries live at once, for {64,32-bit} x {frame pointer}: the
   * allocator's idea of the usable registers (8 in 32-bit code) meets the encoder's */
  {
    int e, t, i;
    int vshape;
    /* vshape 0: chain t_i = f(t_i-1); 1: independent t_i = f(s1, s2); 2: independent with a second constant - the
     * shapes differ in how many loaded operands and invariants are live next to the k temporaries, so that between
     * them every total from 1 to beyond 16 registers occurs */
    for (vshape = 0; vshape < 3; vshape++) for (sz = 2; sz <= 4; sz *= 2) for (k = 1; k <= 17; k++) {
      long idx = g_idx++;
      OrcProgram *p;
      static const char *xorn2[] = { "", "", "xorw", "", "xorl" };
      static const char *subn2[] = { "", "", "subw", "", "subl" };
      if (!(idx >= start && (idx % nshards) == shard)) continue;
      p = orc_program_new ();
      orc_program_set_name (p, "xc2v");
      orc_program_add_destination (p, sz, "d1");
      orc_program_add_source (p, sz, "s1");
      orc_program_add_source (p, sz, "s2");
      orc_program_add_constant (p, sz, 5, "c1");
      for (i = 0; i < k; i++) { sprintf (nm, "t%d", i + 1); orc_program_add_temporary (p, sz, nm); }
      if (vshape == 2) orc_program_add_constant (p, sz, 9, "c2");
      for (i = 0; i < k; i++) {
        char prev[12];
        sprintf (nm, "t%d", i + 1); sprintf (prev, "t%d", i);
        if (vshape == 0) orc_program_append_str (p, i & 1 ? xorn2[sz] : addn[sz], nm, i == 0 ? "s1" : prev, i & 1 ? "s2" : "c1");
        else if (vshape == 1) orc_program_append_str (p, (i % 3) == 0 ? addn[sz] : (i % 3) == 1 ? subn2[sz] : xorn2[sz], nm, "s1", "s2");
        else orc_program_append_str (p, (i % 3) == 0 ? addn[sz] : (i % 3) == 1 ? subn2[sz] : xorn2[sz], nm, i & 1 ? "s1" : "s2", i & 2 ? "c1" : "c2");
      }
      for (i = 1; i < k; i++) { sprintf (nm, "t%d", i + 1); orc_program_append_str (p, xorn2[sz], "t1", "t1", nm); }
      orc_program_append_str (p, addn[sz], "d1", "t1", "s1");
      snprintf (sig, sizeof (sig), "live-temps=%d/shape=%d/size=%d", k, vshape, sz);
      st_programs++;
      for (t = 0; t < 3; t++) {
        unsigned def;
        if (!targets[t]) continue;
        def = orc_target_get_default_flags (targets[t]);
        for (e = 0; e < 4; e++) {
          unsigned fv = (def & ~((1u << 9) | (1u << 7))) | ((e & 1) ? 0 : (1u << 9)) | ((e & 2) ? (1u << 7) : 0);
          char text[200];
          snprintf (text, sizeof (text), "%s with target flags 0x%x (%s-bit%s)", sig, fv, (e & 1) ? "32" : "64", (e & 2) ? ", frame pointer" : "");
          try_compile (p, t, fv, fv == def ? 0 : (e & 1) ? 1 : 2, sig, text, 1);
        }
      }
      orc_program_free (p);
    }
  }
  /* number of arrays 1..12 (dest/source split), used and unused */
  for (n = 1; n <= 12; n++) for (k = 1; k <= 4 && k <= n; k++) for (sz = 1; sz <= 4; sz *= 2) {
    OrcProgram *p = orc_program_new ();
    int i, nd = k, ns = n - k;
    if (ns > 8) { orc_program_free (p); continue; }
    orc_program_set_name (p, "xc2a");
    for (i = 0; i < nd; i++) { sprintf (nm, "d%d", i + 1); orc_program_add_destination (p, sz, nm); }
    for (i = 0; i < ns; i++) { sprintf (nm, "s%d", i + 1); orc_program_add_source (p, sz, nm); }
    for (i = 0; i < nd; i++) {
      char d[8], a[8], b[8];
      sprintf (d, "d%d", i + 1);
      if (ns == 0) { sprintf (a, "d%d", i + 1); orc_program_append_str (p, addn[sz], d, a, a); }
      else { sprintf (a, "s%d", (2 * i) % ns + 1); sprintf (b, "s%d", (2 * i + 1) % ns + 1); orc_program_append_str (p, addn[sz], d, a, b); }
    }
    snprintf (sig, sizeof (sig), "arrays=%d(dest=%d,src=%d)/size=%d", n, nd, ns, sz);
    limits_case (p, sig, start);
  }
  /* variables of every class from 1 to limit + 1 */
  for (shape = 0; shape < 4; shape++) {
    static const int lim[] = { ORC_MAX_TEMP_VARS, ORC_MAX_CONST_VARS, ORC_MAX_PARAM_VARS, ORC_MAX_ACCUM_VARS };
    for (n = 1; n <= lim[shape] + 1; n++) {
      OrcProgram *p = orc_program_new_dss (2, 2, 2);
      int i;
      orc_program_set_name (p, "xc2v");
      for (i = 0; i < n; i++) {
        sprintf (nm, "%c%d", "tcpa"[shape], i + 1);
        if (shape == 0) orc_program_add_temporary (p, 2, nm);
        else if (shape == 1) orc_program_add_constant (p, 2, 100 + i, nm);
        else if (shape == 2) orc_program_add_parameter (p, 2, nm);
        else orc_program_add_accumulator (p, 2, nm);
      }
      for (i = 0; i < n && i < 40; i++) {
        sprintf (nm, "%c%d", "tcpa"[shape], i + 1);
        if (shape == 0) { orc_program_append_str (p, "addw", nm, "s1", "s2"); }
        else if (shape == 3) orc_program_append_ds_str (p, "accw", nm, "s1");
        else orc_program_append_str (p, "addw", "d1", i ? "d1" : "s1", nm);
      }
      if (shape == 0) { for (i = 0; i < n; i++) { sprintf (nm, "t%d", i + 1); orc_program_append_str (p, "xorw", "d1", i ? "d1" : "s1", nm); } }
      snprintf (sig, sizeof (sig), "vars=%c*%d", "tcpa"[shape], n);
      limits_case (p, sig, start);
    }
  }
  /* distinct rule constants (each compare/average/abs family needs its own invariant): 1..24 different literal constants */
  for (n = 1; n <= 24; n++) for (sz = 1; sz <= 4; sz *= 2) {
    OrcProgram *p = orc_program_new ();
    int i;
    orc_program_set_name (p, "xc2c");
    orc_program_add_destination (p, sz, "d1");
    orc_program_add_source (p, sz, "s1");
    orc_program_add_temporary (p, sz, "t1");
    for (i = 0; i < n && i < 8; i++) { sprintf (nm, "c%d", i + 1); orc_program_add_constant (p, sz, 0x101 * (i + 3), nm); }
    for (i = 0; i < n; i++) {
      static const char *fam[3][6] = { { "avgsb", "subusb", "cmpgtsb", "mulhsb", "shrsb", "signb" }, { "avgsw", "subusw", "cmpgtsw", "mulhuw", "shruw", "signw" }, { "avgsl", "subusl", "cmpgtsl", "mulhul", "shrsl", "signl" } };
      const char *op = fam[sz == 1 ? 0 : sz == 2 ? 1 : 2][i % 6];
      sprintf (nm, "c%d", (i % 8) + 1);
      if (!strncmp (op, "sign", 4)) orc_program_append_ds_str (p, op, "t1", i ? "t1" : "s1");
      else orc_program_append_str (p, op, "t1", i ? "t1" : "s1", !strncmp (op, "shr", 3) ? "c1" : nm);
    }
    orc_program_append_ds_str (p, sz == 1 ? "copyb" : sz == 2 ? "copyw" : "copyl", "d1", "t1");
    snprintf (sig, sizeof (sig), "rule-constants=%d/size=%d", n, sz);
    limits_case (p, sig, start);
  }
  /* code size towards the 64 KiB buffer: bulky rules, unrolled */
  for (n = 10; n <= 98; n += 8) {
    static const char *bulky[] = { "divluw", "mulhsl", "avgsl", "mulll", "convsssql" };
    for (k = 0; k < 4; k++) {
      OrcProgram *p = orc_program_new ();
      int i, szs = k == 0 ? 2 : 4;
      orc_program_set_name (p, "xc2k");
      orc_program_add_destination (p, szs, "d1");
      orc_program_add_source (p, szs, "s1");
      orc_program_add_source (p, szs, "s2");
      orc_program_add_temporary (p, szs, "t1");
      for (i = 0; i < n; i++) orc_program_append_str (p, bulky[k], "t1", i ? "t1" : "s1", "s2");
      orc_program_append_ds_str (p, szs == 2 ? "copyw" : "copyl", "d1", "t1");
      snprintf (sig, sizeof (sig), "bulky=%s*%d", bulky[k], n);
      limits_case (p, sig, start);
    }
  }
  /* a program that compiled is extended by an instruction that makes the next compile fail at once (size mismatch,
   * unknown operand sizes) and is compiled again without a reset: the fatal result must leave no code object behind */
  {
    int t;
    for (t = 0; t < NT; t++) for (k = 0; k < 2; k++) {
      long idx = g_idx++;
      OrcProgram *p;
      if (!targets[t]) continue;
      if (idx < start || (idx % nshards) != shard) continue;
      p = orc_program_new_dss (2, 2, 2);
      orc_program_set_name (p, "xc2r");
      orc_program_append_str (p, "addw", "d1", "s1", "s2");
      snprintf (sig, sizeof (sig), "recompile-after-%s", k ? "x2-x4" : "size-mismatch");
      st_programs++;
      try_compile (p, t, orc_target_get_default_flags (targets[t]), 0, sig, sig, 1);
      if (k == 0) orc_program_append_str (p, "addl", "d1", "s1", "s2");
      else orc_program_append_2 (p, "addb", ORC_INSTRUCTION_FLAG_X2 | ORC_INSTRUCTION_FLAG_X4, ORC_VAR_D1, ORC_VAR_S1, ORC_VAR_S2, -1);
      g_noreset = 1;
      try_compile (p, t, orc_target_get_default_flags (targets[t]), 0, sig, sig, 0);
      try_compile (p, t, orc_target_get_default_flags (targets[t]), 0, sig, sig, 0);
      g_noreset = 0;
      orc_program_free (p);
    }
  }
  /* text that ends up in the listing: program and variable names around the sizes of the formatting buffers (every
   * back end prints the program name; the C back ends print variable names) */
  {
    static const int nlen[] = { 1, 100, 180, 189, 190, 198, 199, 200, 201, 255, 256, 300, 1000, 5000, 70000 };
    int which;
    for (n = 0; n < 15; n++) for (which = 0; which < 2; which++) {
      OrcProgram *p = orc_program_new ();
      char *nmx = malloc (nlen[n] + 1);
      int i;
      for (i = 0; i < nlen[n]; i++) nmx[i] = (char) ('a' + i % 26);
      nmx[nlen[n]] = 0;
      orc_program_set_name (p, which == 0 ? nmx : "xc2n");
      orc_program_add_destination (p, 2, "d1");
      orc_program_add_source (p, 2, which == 1 ? nmx : "s1");
      orc_program_append_ds_str (p, "copyw", "d1", which == 1 ? nmx : "s1");
      snprintf (sig, sizeof (sig), "%s-name-length=%d", which ? "variable" : "program", nlen[n]);
      limits_case (p, sig, start);
      free (nmx);
    }
  }
}

/* ------------------------------------------------------------ space 3 */
static void space3 (long start)
{
  /* representative programs x flag vectors for every target */
  static const char *progs[][4] = {
    { "addw", "2", "2", "2" }, { "addq", "8", "8", "8" }, { "mulll", "4", "4", "4" }, { "convsuswb", "1", "2", "" }, { "addf", "4", "4", "4" },
    { "divd", "8", "8", "8" }, { "loadupib", "1", "1", "" }, { "mulhsb", "1", "1", "1" }, { "swapq", "8", "8", "" }, { "accsadubl", "4", "1", "1" },
    { "splitql", "4", "8", "" }, { "cmpgtsq", "8", "8", "8" }, { "minul", "4", "4", "4" }, { "convfl", "4", "4", "" }, { "avgsb", "1", "1", "1" },
    { "mulslq", "8", "4", "4" }, { "convsssql", "4", "8", "" }, { "sqrtf", "4", "4", "" }, { "div255w", "2", "2", "" }, { "ldreslinl", "4", "4", "" },
  };
  int pi, t;
  for (pi = 0; pi < 20; pi++) {
    const OrcStaticOpcode *o = orc_opcode_find_by_name (progs[pi][0]);
    for (t = 0; t < NT; t++) {
      unsigned def, fv;
      int nflags, fi;
      if (!targets[t] || !o) continue;
      def = orc_target_get_default_flags (targets[t]);
      /* flag vectors: x86 targets: every subset of the 12 low bits (4096); others: 0, all ones, default, single-bit deviations of the low 16 bits */
      nflags = t < 3 ? 4096 : 19;
      for (fi = 0; fi < nflags; fi++) {
        long idx = g_idx++;
        OrcProgram *p;
        char sig[100], text[160];
        int nsrc = op_nsrc (o), a[5], na = 0;
        if (idx < start || (idx % nshards) != shard) continue;
        if (t < 3) { fv = (unsigned) fi; if (!thorough && (fi % 4) != 0 && __builtin_popcount (fi ^ (def & 0xfff)) > 1) continue; }
        else fv = fi == 0 ? 0 : fi == 1 ? 0xffffffffu : fi == 2 ? def : (def ^ (1u << (fi - 3)));
        p = orc_program_new ();
        orc_program_set_name (p, "xc3");
        if (o->flags & ORC_STATIC_OPCODE_ACCUMULATOR) a[na++] = orc_program_add_accumulator (p, o->dest_size[0], "a1");
        else a[na++] = orc_program_add_destination (p, o->dest_size[0], "d1");
        if (o->dest_size[1]) a[na++] = orc_program_add_destination (p, o->dest_size[1], "d2");
        a[na++] = orc_program_add_source (p, o->src_size[0], "s1");
        if (nsrc > 1) a[na++] = (o->flags & ORC_STATIC_OPCODE_SCALAR) ? orc_program_add_constant (p, o->src_size[1], 0x8000, "c1") : orc_program_add_source (p, o->src_size[1], "s2");
        if (nsrc > 2) a[na++] = orc_program_add_constant (p, o->src_size[2], 0x8000, "c2");
        orc_program_append_2 (p, o->name, 0, a[0], a[1], na > 2 ? a[2] : -1, na > 3 ? a[3] : -1);
        snprintf (sig, sizeof (sig), "%s/flags", o->name);
        snprintf (text, sizeof (text), "%s with target flags 0x%x (default 0x%x)", o->name, fv, def);
        st_programs++;
        /* code for flag vectors other than the default may use instructions this host lacks only if the vector claims them; the host has them all, but 32-bit code cannot run */
        try_compile (p, t, fv, fv == def ? 0 : 1, sig, text, 1);
        orc_program_free (p);
      }
    }
  }
}

/* ------------------------------------------------------------ space 4 */
/* the string construction API: every assignment of {a declared name of each class, an undeclared name, the empty
 * string, NULL} to the operand positions of append_str / append_ds_str / append_dds_str, for opcodes with 1, 2 and 3
 * sources, two destinations, an accumulator, and an opcode name that does not exist.  Construction must report an
 * error on the program (not crash); compiling it must classify the result. */
static void space4 (long start)
{
  static const char *names[] = { "d1", "s1", "s2", "t1", "c1", "p1", "a1", "nosuch", "", NULL };
  static const char *ops[] = { "addw", "copyw", "splitlw", "accw", "loadoffw", "bogus" };
  int oi, api, a, b, c, t;
  for (oi = 0; oi < 6; oi++) for (api = 0; api < 3; api++) for (a = 0; a < 10; a++) for (b = 0; b < 10; b++) for (c = 0; c < 10; c++) {
    long idx = g_idx++;
    OrcProgram *p;
    char sig[100], text[200];
    if (api == 1 && c) continue;	/* append_ds_str has two operands */
    if (idx < start || (idx % nshards) != shard) continue;
    snprintf (sig, sizeof (sig), "strapi%d/%s", api, ops[oi]);
    snprintf (text, sizeof (text), "%s (%s: %s, %s, %s)", api == 0 ? "append_str" : api == 1 ? "append_ds_str" : "append_dds_str", ops[oi],
        names[a] ? names[a] : "NULL", names[b] ? names[b] : "NULL", names[c] ? names[c] : "NULL");
    { char key[300]; snprintf (key, sizeof (key), "C05|died|construction|%s", sig); v_case (idx, key, text); }
    p = orc_program_new ();
    orc_program_set_name (p, "xc4");
    orc_program_add_destination (p, 2, "d1");
    orc_program_add_destination (p, 2, "d2");
    orc_program_add_source (p, 2, "s1");
    orc_program_add_source (p, 2, "s2");
    orc_program_add_temporary (p, 2, "t1");
    orc_program_add_constant (p, 2, 1, "c1");
    orc_program_add_parameter (p, 2, "p1");
    orc_program_add_accumulator (p, 2, "a1");
    if (api == 0) orc_program_append_str (p, ops[oi], names[a], names[b], names[c]);
    else if (api == 1) orc_program_append_ds_str (p, ops[oi], names[a], names[b]);
    else orc_program_append_dds_str (p, ops[oi], names[a], names[b], names[c]);
    st_programs++;
    for (t = 0; t < NT; t++) try_compile (p, t, targets[t] ? orc_target_get_default_flags (targets[t]) : 0, 0, sig, text, 0);
    orc_program_free (p);
  }
}

/* ------------------------------------------------------------ space 5 */
/* every program of the shared program space (L1: every single-opcode form incl. the special constant domains of shifts,
 * load offsets and resampling; L5; L6) compiled for the five targets that are not executed anywhere else: c, c64x-c,
 * neon (32- and 64-bit flags), altivec, mips.  Only termination, classification and memory safety are judged. */
static long g5_start;
static void space5_prog (VProg * vp, void *user)
{
  long idx = g_idx++;
  OrcProgram *p;
  char sig[120];
  int t;
  (void) user;
  if (idx < g5_start || (idx % nshards) != shard) return;
  if (!thorough && (idx % 2) && strncmp (vp->name, "vL1", 3) == 0 && vp->ni == 1 && !(op_is_loadoff (orc_opcode_find_by_name (vp->in[0].op)) || op_is_ldres (orc_opcode_find_by_name (vp->in[0].op)))) return;
  p = vprog_build (vp);
  snprintf (sig, sizeof (sig), "prog/%s%s", vp->in[0].op, vp->ni > 1 ? ",..." : "");
  st_programs++;
  for (t = 3; t < NT; t++) {
    if (!targets[t]) continue;
    try_compile (p, t, orc_target_get_default_flags (targets[t]), 0, sig, vprog_oneline (vp), 0);
    if (!strcmp (tnames[t], "neon")) try_compile (p, t, ORC_TARGET_NEON_NEON | ORC_TARGET_NEON_64BIT, 1, sig, vprog_oneline (vp), 0);
  }
  orc_program_free (p);
}
/* scalar operands x parameter classes: every opcode that takes a scalar operand (shift counts, load offsets, resampling
 * start and step), that operand given as a parameter declared in each of the four public ways, compiled for every
 * target, the C back end under all 16 flag subsets */
static void space5_scalar_params (void)
{
  OrcOpcodeSet *set = orc_opcode_set_get ("sys");
  int oi, k, pt, t;
  for (oi = 0; oi < set->n_opcodes; oi++) {
    OrcStaticOpcode *o = &set->opcodes[oi];
    for (k = 1; k < 3; k++) {
      if (!o->src_size[k]) continue;
      if (!((o->flags & ORC_STATIC_OPCODE_SCALAR) || op_is_loadoff (o) || op_is_ldres (o))) continue;
      for (pt = 0; pt < 5; pt++) {
        long idx = g_idx++;
        OrcProgram *p;
        char sig[120], text[300];
        int j;
        if (idx < g5_start || (idx % nshards) != shard) continue;
        p = orc_program_new ();
        orc_program_set_name (p, "scalar_param");
        orc_program_add_destination (p, o->dest_size[0], "d1");
        orc_program_add_source (p, o->src_size[0], "s1");
        for (j = 1; j < 3; j++) {
          char nm[8];
          if (!o->src_size[j]) continue;
          sprintf (nm, "p%d", j);
          if (j != k || pt == 0) orc_program_add_parameter (p, o->src_size[j], nm);
          else if (pt == 1) orc_program_add_parameter_float (p, o->src_size[j], nm);
          else if (pt == 2) orc_program_add_parameter_int64 (p, o->src_size[j], nm);
          else if (pt == 3) orc_program_add_parameter_double (p, o->src_size[j], nm);
          else orc_program_add_constant_int64 (p, 8, 0x100000000LL, nm);	/* what the parser makes of a literal beyond 32 bits */
        }
        {
          int a1 = (pt == 4 && k == 1) ? ORC_VAR_C1 : ORC_VAR_P1, a2 = (pt == 4 && k == 2) ? ORC_VAR_C1 : (pt == 4 && k == 1) ? ORC_VAR_P1 : ORC_VAR_P1 + 1;
          if (o->src_size[2]) orc_program_append_2 (p, o->name, 0, ORC_VAR_D1, ORC_VAR_S1, a1, a2);
          else orc_program_append_2 (p, o->name, 0, ORC_VAR_D1, ORC_VAR_S1, a1, -1);
        }
        snprintf (sig, sizeof (sig), "scalar-param/%s/operand%d/%s", o->name, k, pt == 0 ? "param" : pt == 1 ? "floatparam" : pt == 2 ? "longparam" : pt == 3 ? "doubleparam" : "const64");
        snprintf (text, sizeof (text), "%s d1, s1, <scalar operand %d declared with orc_program_add_parameter%s, %d bytes>", o->name, k, pt == 0 ? "" : pt == 1 ? "_float" : pt == 2 ? "_int64" : pt == 3 ? "_double" : " (pt 4: an 8-byte constant 0x100000000 instead)", o->src_size[k]);
        st_programs++;
        for (t = 0; t < NT; t++) {
          unsigned fl;
          if (!targets[t]) continue;
          if (!strcmp (tnames[t], "c")) { for (fl = 0; fl < 16; fl++) try_compile (p, t, fl, 2, sig, text, 0); }
          else try_compile (p, t, orc_target_get_default_flags (targets[t]), 0, sig, text, 0);
        }
        orc_program_free (p);
      }
    }
  }
}
static void space5 (long start)
{
  g5_start = start;
  space5_scalar_params ();
  pgen_L1 (space5_prog, NULL, PG_INT | PG_FLOAT);
  pgen_L5 (space5_prog, NULL);
  pgen_L6 (space5_prog, NULL, PG_INT | PG_FLOAT);
}

static void worker (long start, void *user)
{
  int t;
  (void) user;
  g_idx = 0;
  orc_init ();
  v_ops_init ();
  v_install_handlers ();
  for (t = 0; t < NT; t++) targets[t] = orc_target_get_by_name (tnames[t]);
  if (space == 1) space1 (start);
  else if (space == 2) space2 (start);
  else if (space == 4) space4 (start);
  else if (space == 5) space5 (start);
  else space3 (start);
  v_out ("{\"t\":\"stat\",\"programs\":%ld,\"compiles\":%ld,\"successful\":%ld,\"nonfatal\":%ld,\"fatal\":%ld,\"native_runs\":%ld,\"emulation_runs\":%ld,\"violations_raw\":%ld}",
      st_programs, st_compiles, st_ok, st_fail, st_fatal, st_runs, st_emul, st_viol);
  v_out ("{\"t\":\"max\",\"space%d_size\":%ld}", space, g_idx);
}

int main (int argc, char **argv)
{
  shard = v_argi (argc, argv, "--shard", 0);
  nshards = v_argi (argc, argv, "--nshards", 1);
  thorough = !strcmp (v_arg (argc, argv, "--tier", "quick"), "thorough");
  space = v_argi (argc, argv, "--space", 1);
  only_idx = v_argi (argc, argv, "--only-idx", -1);
  v_supervise (worker, NULL, "C05");
  return 0;
}
