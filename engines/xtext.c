/* xtext: a program written as .orc text is the program built through the API
 * (C15).  Every program descriptor of the enumerated spaces is built through
 * the construction API (the twin) and printed by an independent printer in
 * every combination of formatting choices; each rendering is parsed and the
 * parsed program compared with the twin: no parse errors, variable classes,
 * sizes, alignments, type names, parameter classes, constant values, 2-D and
 * constant n/m, instruction order, opcodes, x2/x4, operand binding, and the
 * emulation result.  ASan + bounds build. */
#include "pgen.h"
#include "vrun.h"

static int shard, nshards, thorough;
static long g_idx, st_programs, st_renderings, st_viol, st_emul;
static char *seen[300];
static int nseen, nsamples;

typedef struct { int crlf, indent, sep, comments, blank, lit, tnames, lastnl, ws; } Fmt;	/* ws: 0 blanks are spaces, 1 every blank is a TAB */

static const char *indents[] = { "", "  ", "\t" };
static const char *seps[] = { ", ", ",", " ", " , " };

static int const_is_simple_float (const VVar * v, char *out)
{
  /* float spelling only for values whose short decimal form is exact */
  if (!v->ptype) return 0;
  if (v->size == 4) {
    uint32_t b = (uint32_t) v->cval;
    if (b == 0x3f800000u) { strcpy (out, "1.0"); return 1; }
    if (b == 0xc0200000u) { strcpy (out, "-2.5"); return 1; }
  } else {
    uint64_t b = (uint64_t) v->cval;
    if (b == 0x3ff0000000000000ULL) { strcpy (out, "1.0L"); return 1; }
    if (b == 0xc004000000000000ULL) { strcpy (out, "-2.5L"); return 1; }
  }
  return 0;
}

/* spelling of a constant's value; lit: 0 decimal, 1 hex, 2 float notation when possible (else hex) */
static void const_spelling (const VVar * v, int lit, char *out)
{
  if (lit == 2 && const_is_simple_float (v, out)) return;
  if (v->size == 8) {
    if (lit == 0 && v->cval >= 0) sprintf (out, "%lldL", (long long) v->cval);
    else if (lit == 0) sprintf (out, "%lldL", (long long) v->cval);
    else sprintf (out, "0x%llxL", (unsigned long long) v->cval);
  } else {
    int32_t x = (int32_t) v->cval;
    if (lit == 0) sprintf (out, "%d", x);
    else if (x < 0) sprintf (out, "-0x%x", (unsigned) (-(int64_t) x));	/* a negative value keeps its sign in hex: 0xfffffffc would denote 4294967292 */
    else sprintf (out, "0x%x", (unsigned) x);
  }
}

static const char *type_name_for (const VVar * v)
{
  switch (v->size) { case 1: return "orc_int8"; case 2: return "gint16"; case 4: return v->ptype ? "float" : "orc_uint32"; default: return "orc_int64"; }
}

static size_t render (const VProg * p, const Fmt * f, char *out, size_t cap, int inline_lits)
{
  size_t o = 0;
  int i, k, line = 0;
  const char *nl = f->crlf ? "\r\n" : "\n", *ind = indents[f->indent];
  char nm[16], sp[64];
#define EOL(trailing_ok) do { \
    if (f->comments == 2 && (trailing_ok)) o += snprintf (out + o, cap - o, " # c%d", line); \
    o += snprintf (out + o, cap - o, "%s", nl); \
    if (f->comments == 1) o += snprintf (out + o, cap - o, "%s# comment %d%s", ind, line, nl); \
    if (f->blank) o += snprintf (out + o, cap - o, "%s", (line & 1) ? nl : (f->crlf ? "  \r\n" : "  \n")); \
    line++; } while (0)
  o += snprintf (out + o, cap - o, "%s.function %s", ind, p->name); EOL (1);
  if (p->is2d) { o += snprintf (out + o, cap - o, "%s.flags 2d", ind); EOL (1); }
  if (p->cn) { o += snprintf (out + o, cap - o, "%s.n %d", ind, p->cn); EOL (1); }
  if (p->cm) { o += snprintf (out + o, cap - o, "%s.m %d", ind, p->cm); EOL (1); }
  for (i = 0; i < p->nv; i++) {
    const VVar *v = &p->v[i];
    vprog_varname (p, i, nm);
    switch (v->kind) {
      case VK_D: case VK_S:
        o += snprintf (out + o, cap - o, "%s%s %d %s", ind, v->kind == VK_D ? ".dest" : ".source", v->size, nm);
        if (v->align) o += snprintf (out + o, cap - o, " align %d", v->align);
        if (f->tnames) o += snprintf (out + o, cap - o, " %s", type_name_for (v));
        EOL (1);
        break;
      case VK_T: o += snprintf (out + o, cap - o, "%s.temp %d %s", ind, v->size, nm); EOL (1); break;
      case VK_A: o += snprintf (out + o, cap - o, "%s.accumulator %d %s", ind, v->size, nm); if (f->tnames) o += snprintf (out + o, cap - o, " %s", type_name_for (v)); EOL (1); break;
      case VK_C:
        if (inline_lits) break;
        const_spelling (v, f->lit, sp);
        o += snprintf (out + o, cap - o, "%s.const %d %s %s", ind, v->size, nm, sp); EOL (1);
        break;
      case VK_P:
        o += snprintf (out + o, cap - o, "%s%s %d %s", ind, v->ptype == ORC_PARAM_TYPE_FLOAT ? ".floatparam" : v->ptype == ORC_PARAM_TYPE_INT64 ? ".longparam" :
            v->ptype == ORC_PARAM_TYPE_DOUBLE ? ".doubleparam" : ".param", v->size, nm);
        EOL (1);
        break;
    }
  }
  for (i = 0; i < p->ni; i++) {
    const VInsn *in = &p->in[i];
    o += snprintf (out + o, cap - o, "%s", ind);
    if (in->flags & ORC_INSTRUCTION_FLAG_X2) o += snprintf (out + o, cap - o, "x2 ");
    if (in->flags & ORC_INSTRUCTION_FLAG_X4) o += snprintf (out + o, cap - o, "x4 ");
    o += snprintf (out + o, cap - o, "%s", in->op);
    for (k = 0; k < in->nargs; k++) {
      const VVar *v = &p->v[in->args[k]];
      if (v->kind == VK_C && inline_lits) const_spelling (v, f->lit, sp);
      else { vprog_varname (p, in->args[k], nm); strcpy (sp, nm); }
      o += snprintf (out + o, cap - o, "%s%s", k ? seps[f->sep] : " ", sp);
    }
    if (i == p->ni - 1 && !f->lastnl) { if (f->comments == 2) o += snprintf (out + o, cap - o, " # end"); }
    else EOL (1);
  }
  out[o] = 0;
  return o;
}

static void viol (const VProg * p, const char *cls, const char *msg, const char *text, const Fmt * f, int inl)
{
  char key[400], sig[200];
  size_t o = 0;
  int i;
  sig[0] = 0;
  for (i = 0; i < p->ni && i < 3; i++) o += snprintf (sig + o, sizeof (sig) - o, "%s%s", i ? "," : "", p->in[i].op);
  st_viol++;
  snprintf (key, sizeof (key), "C15|%s|%s|%s", cls, sig, inl ? "inline-literals" : "named-constants");
  for (i = 0; i < nseen; i++) if (!strcmp (seen[i], key)) return;
  if (nseen < 300) seen[nseen++] = strdup (key);
  v_out ("{\"t\":\"viol\",\"key\":\"%s\",\"what\":\"%s (format: crlf=%d indent=%d sep=%d comments=%d blank=%d literal=%d typenames=%d final-newline=%d)\",\"replay\":{\"text\":\"%s\"}}",
      v_esc (key), v_esc (msg), f->crlf, f->indent, f->sep, f->comments, f->blank, f->lit, f->tnames, f->lastnl, v_esc (text));
}

static uint64_t mask_size (uint64_t v, int size) { return size >= 8 ? v : (v & ((1ULL << (size * 8)) - 1)); }

/* compare parsed program q with the API twin p; returns NULL if equal else message */
static const char *compare (OrcProgram * p, OrcProgram * q, int inl, int tnames)
{
  static char msg[300];
  int i, k;
#define CK(c, ...) do { if (!(c)) { snprintf (msg, sizeof (msg), __VA_ARGS__); return msg; } } while (0)
  CK (!strcmp (p->name, q->name), "function name '%s' vs '%s'", q->name, p->name);
  CK (p->is_2d == q->is_2d, "2-D flag %d vs %d", q->is_2d, p->is_2d);
  CK (p->constant_n == q->constant_n && p->constant_m == q->constant_m, "constant n/m %d/%d vs %d/%d", q->constant_n, q->constant_m, p->constant_n, p->constant_m);
  CK (p->n_insns == q->n_insns, "%d instructions parsed, %d built", q->n_insns, p->n_insns);
  for (i = 0; i < ORC_N_VARIABLES; i++) {
    OrcVariable *a = &p->vars[i], *b = &q->vars[i];
    if (a->vartype == ORC_VAR_TYPE_CONST || b->vartype == ORC_VAR_TYPE_CONST || (i >= ORC_VAR_C1 && i <= ORC_VAR_C8)) continue;	/* constants compared through the operands */
    CK (a->size == b->size, "variable slot %d: size %d vs %d", i, b->size, a->size);
    if (!a->size) continue;
    CK (a->vartype == b->vartype, "variable %s: class %d vs %d", a->name, b->vartype, a->vartype);
    CK (!strcmp (a->name, b->name), "variable slot %d: name %s vs %s", i, b->name, a->name);
    if (a->vartype == ORC_VAR_TYPE_SRC || a->vartype == ORC_VAR_TYPE_DEST) {
      CK (a->alignment == b->alignment, "variable %s: alignment %d vs %d", a->name, b->alignment, a->alignment);
      if (tnames) CK (b->type_name && a->type_name && !strcmp (a->type_name, b->type_name), "variable %s: type name %s vs %s", a->name, b->type_name ? b->type_name : "(none)", a->type_name ? a->type_name : "(none)");
    }
    if (a->vartype == ORC_VAR_TYPE_PARAM) CK (a->param_type == b->param_type, "parameter %s: class %d vs %d", a->name, b->param_type, a->param_type);
  }
  for (i = 0; i < p->n_insns; i++) {
    OrcInstruction *a = &p->insns[i], *b = &q->insns[i];
    CK (a->opcode == b->opcode, "instruction %d: opcode %s vs %s", i, b->opcode ? b->opcode->name : "?", a->opcode->name);
    CK ((a->flags & 3) == (b->flags & 3), "instruction %d (%s): x2/x4 flags %u vs %u", i, a->opcode->name, b->flags, a->flags);
    for (k = 0; k < 2; k++) if (a->opcode->dest_size[k]) CK (a->dest_args[k] == b->dest_args[k], "instruction %d (%s): destination %d bound to variable %d vs %d", i, a->opcode->name, k, b->dest_args[k], a->dest_args[k]);
    for (k = 0; k < 3; k++) if (a->opcode->src_size[k]) {
      OrcVariable *va = &p->vars[a->src_args[k]], *vb = &q->vars[b->src_args[k]];
      if (va->vartype == ORC_VAR_TYPE_CONST) {
        CK (vb->vartype == ORC_VAR_TYPE_CONST, "instruction %d (%s): source %d is not a constant", i, a->opcode->name, k);
        CK (vb->size == va->size, "instruction %d (%s): constant operand size %d vs %d", i, a->opcode->name, vb->size, va->size);
        CK (mask_size (va->value.i, va->size) == mask_size (vb->value.i, vb->size), "instruction %d (%s): constant operand value 0x%llx vs 0x%llx", i, a->opcode->name,
            (unsigned long long) vb->value.i, (unsigned long long) va->value.i);
      } else CK (a->src_args[k] == b->src_args[k], "instruction %d (%s): source %d bound to variable %d vs %d", i, a->opcode->name, k, b->src_args[k], a->src_args[k]);
    }
  }
  (void) inl;
  return NULL;
}

static int emulate_equal (OrcProgram * p, OrcProgram * q, char *msg, size_t cap)
{
  VRunCfg c;
  VArena A, B;
  OrcExecutor ea, eb;
  int rc;
  if (ORC_COMPILE_RESULT_IS_FATAL (orc_program_compile_for_target (p, NULL)) != ORC_COMPILE_RESULT_IS_FATAL (orc_program_compile_for_target (q, NULL))) { snprintf (msg, cap, "compile results differ"); return 1; }
  if (!p->orccode || !q->orccode) return 0;
  memset (&c, 0, sizeof (c));
  c.n = p->constant_n > 0 ? p->constant_n : 37;
  c.m = p->is_2d ? (p->constant_m > 0 ? p->constant_m : 2) : 1;
  c.pchoice = 1;
  vr_arena_alloc (&A, p, &c); vr_arena_fill (&A, &c); vr_exec_setup (&ea, p, &A, &c);
  vr_arena_alloc (&B, q, &c); vr_arena_fill (&B, &c); vr_exec_setup (&eb, q, &B, &c);
  memcpy (eb.params + ORC_VAR_P1, ea.params + ORC_VAR_P1, sizeof (int) * (ORC_VAR_T16 + 1 - ORC_VAR_P1));
  orc_executor_emulate (&ea);
  orc_executor_emulate (&eb);
  st_emul++;
  rc = vr_compare (&B, &A, &c, &eb, &ea, msg, cap);
  vr_arena_free (&A);
  vr_arena_free (&B);
  return rc != 0;
}

static void on_prog (VProg * vp, void *user)
{
  long idx = g_idx++;
  OrcProgram *twin;
  Fmt f;
  int inl, has_const = 0, i, nrend = 0;
  static char text[16384];
  if (idx < *(long *) user || (idx % nshards) != shard) return;
  for (i = 0; i < vp->nv; i++) if (vp->v[i].kind == VK_C) has_const = 1;
  st_programs++;
  v_case (idx, "C15|crash", vprog_oneline (vp));
  for (inl = 0; inl < (has_const ? 2 : 1); inl++) {
    for (f.crlf = 0; f.crlf < 2; f.crlf++) for (f.indent = 0; f.indent < 3; f.indent++) for (f.sep = 0; f.sep < 4; f.sep++)
      for (f.comments = 0; f.comments < 3; f.comments++) for (f.blank = 0; f.blank < 2; f.blank++) for (f.lit = 0; f.lit < (has_const ? 3 : 1); f.lit++)
        for (f.tnames = 0; f.tnames < 2; f.tnames++) for (f.lastnl = 0; f.lastnl < 2; f.lastnl++) for (f.ws = 0; f.ws < 2; f.ws++) {
          OrcProgram **progs = NULL;
          OrcParseError **errors = NULL;
          int np = 0, ne = 0;
          const char *m;
          /* quick tier: the full cross product for every 16th program, a covering subset (each choice varied alone + two mixes) otherwise */
          if (!thorough && (idx % 16) != 0) {
            int nondefault = (f.crlf != 0) + (f.indent != 0) + (f.sep != 0) + (f.comments != 0) + (f.blank != 0) + (f.lit != 0) + (f.tnames != 0) + (f.lastnl != 1) + (f.ws != 0);
            int allmax = f.crlf == 1 && f.indent == 2 && f.sep == 3 && f.comments == 2 && f.blank == 1 && f.tnames == 1 && f.lastnl == 0 && f.ws == 1;
            if (nondefault > 1 && !allmax) continue;
          }
          /* the twin: API-built program with the same type names when the text carries them */
          twin = vprog_build (vp);
          if (f.tnames) for (i = 0; i < vp->nv; i++) if (vp->v[i].kind == VK_D || vp->v[i].kind == VK_S || vp->v[i].kind == VK_A) orc_program_set_type_name (twin, vp->v[i].idx, type_name_for (&vp->v[i]));
          render (vp, &f, text, sizeof (text), inl);
          if (f.ws) {
            /* every blank outside comments becomes a TAB: between directive tokens, after the opcode, after commas */
            char *c;
            int incomment = 0;
            for (c = text; *c; c++) {
              if (*c == '#') incomment = 1;
              else if (*c == '\n') incomment = 0;
              else if (*c == ' ' && !incomment) *c = '\t';
            }
          }
          nrend++;
          st_renderings++;
          orc_parse_code (text, &progs, &np, &errors, &ne);
          if (ne > 0) { char mm[300]; snprintf (mm, sizeof (mm), "%d parse error(s) on well-formed text, first at line %d: %s", ne, errors[0]->line_number, errors[0]->text); viol (vp, "parse-error", mm, text, &f, inl); }
          else if (np != 1) viol (vp, "program-count", "text with one function did not yield exactly one program", text, &f, inl);
          else {
            m = compare (twin, progs[0], inl, f.tnames);
            if (m) viol (vp, "structure", m, text, &f, inl);
            else if (nrend <= 2 || f.lit == 2) {
              char em[300];
              if (emulate_equal (twin, progs[0], em, sizeof (em))) viol (vp, "behaviour", em, text, &f, inl);
            }
          }
          for (i = 0; i < np; i++) orc_program_free (progs[i]);
          free (progs);
          orc_parse_error_freev (errors);
          orc_program_free (twin);
        }
  }
  if (nsamples < 2 && (idx % 4001) == 16) { nsamples++; v_out ("{\"t\":\"sample\",\"rendering\":\"%s\",\"renderings_of_this_program\":%d}", v_esc (text), nrend); }
}

static const char *g_levels;
static void worker (long start, void *user)
{
  (void) user;
  g_idx = 0;
  orc_init ();
  v_ops_init ();
  /* LQ: two 64-bit literals in one function whose spellings (decimal and hex) share a long prefix */
  {
    static const int64_t pairs[][2] = { { 0x7fffffffffffffffLL, 0x7ffffffffffffffeLL }, { 1000000000001LL, 1000000000002LL },
      { 0x123456789abcdef0LL, 0x123456789abcdef1LL }, { -1000000000001LL, -1000000000002LL } };
    int k;
    for (k = 0; k < 4; k++) {
      VProg p;
      int d1, d2, s1, s2, c1, c2;
      memset (&p, 0, sizeof (p));
      d1 = vprog_addvar (&p, VK_D, 8); s1 = vprog_addvar (&p, VK_S, 8);
      d2 = vprog_addvar (&p, VK_D, 8); s2 = vprog_addvar (&p, VK_S, 8);
      c1 = vprog_addvar (&p, VK_C, 8); p.v[c1].cval = pairs[k][0];
      c2 = vprog_addvar (&p, VK_C, 8); p.v[c2].cval = pairs[k][1];
      vprog_addinsn (&p, "andq", 0, 3, d1, s1, c1, -1);
      vprog_addinsn (&p, "xorq", 0, 3, d2, s2, c2, -1);
      snprintf (p.name, sizeof (p.name), "vLQ_%d", k);
      on_prog (&p, &start);
    }
  }
  /* LM: the maximum number of variables of every class, each one used by name: 4 destinations, 4 accumulators, 8
   * sources, 16 temporaries, 8 constants (second program: 8 parameters).  Every temporary is written once and read
   * once, so that the compiler's own temporaries suffice. */
  {
    int k, v;
    for (v = 0; v < 2; v++) {
      VProg p;
      int d[4], s[8], t[16], c[8], a[4];
      memset (&p, 0, sizeof (p));
      for (k = 0; k < 4; k++) d[k] = vprog_addvar (&p, VK_D, 2);
      for (k = 0; k < 4; k++) a[k] = vprog_addvar (&p, VK_A, 2);
      for (k = 0; k < 8; k++) s[k] = vprog_addvar (&p, VK_S, 2);
      for (k = 0; k < 16; k++) t[k] = vprog_addvar (&p, VK_T, 2);
      for (k = 0; k < 8; k++) { c[k] = vprog_addvar (&p, v ? VK_P : VK_C, 2); p.v[c[k]].cval = 100 + k; }
      for (k = 0; k < 16; k++) vprog_addinsn (&p, "addw", 0, 3, t[k], s[k % 8], c[k % 8], -1);
      for (k = 0; k < 12; k++) vprog_addinsn (&p, "accw", 0, 2, a[k % 4], t[k], -1, -1);
      for (k = 0; k < 4; k++) vprog_addinsn (&p, "copyw", 0, 2, d[k], t[12 + k], -1, -1);
      snprintf (p.name, sizeof (p.name), "vLM_%d", v);
      on_prog (&p, &start);
    }
  }
  /* LN: the .n directive in every form: each ordered selection of the hints mult/min/max, alone or followed by a
   * constant n, against orc_program_set_n_multiple/_minimum/_maximum/set_constant_n; compared field by field, on the
   * error count of the parse, and by emulation */
  if (shard == 0 && start == 0) {
    static const char *hint[3] = { "mult", "min", "max" };
    static const int hval[3] = { 4, 8, 32 };
    int sel, cn, fm;
    for (sel = 0; sel < 4 * 4 * 4; sel++) for (cn = 0; cn < 2; cn++) for (fm = 0; fm < 2; fm++) {
      int h[3] = { sel & 3, sel >> 2 & 3, sel >> 4 & 3 }, k, used = 0, nh = 0, ok = 1, n, errs;
      char line[200], text[600], *log = NULL, msg[300];
      size_t o = 0;
      OrcProgram *p, **progs = NULL;
      Fmt f;
      VProg dummy;
      /* h[k]==3: no hint in this position; positions filled from the left, no hint twice */
      for (k = 0; k < 3; k++) { if (h[k] == 3) { int j; for (j = k + 1; j < 3; j++) if (h[j] != 3) ok = 0; } else { if (used >> h[k] & 1) ok = 0; used |= 1 << h[k]; nh++; } }
      if (!ok || (!nh && !cn)) continue;
      o += snprintf (line + o, sizeof (line) - o, fm ? "\t.n" : ".n");
      for (k = 0; k < nh; k++) o += snprintf (line + o, sizeof (line) - o, fm ? "\t%s\t%d" : " %s %d", hint[h[k]], hval[h[k]]);
      if (cn) o += snprintf (line + o, sizeof (line) - o, " 16");
      if (fm) o += snprintf (line + o, sizeof (line) - o, " # hints");
      snprintf (text, sizeof (text), ".function vLN_%d_%d\n%s\n.dest 2 d1\n.source 2 s1\naddw d1, s1, 3\n", sel, cn, line);
      p = orc_program_new ();
      snprintf (msg, sizeof (msg), "vLN_%d_%d", sel, cn);
      orc_program_set_name (p, msg);
      for (k = 0; k < nh; k++) {
        if (h[k] == 0) orc_program_set_n_multiple (p, hval[0]);
        if (h[k] == 1) orc_program_set_n_minimum (p, hval[1]);
        if (h[k] == 2) orc_program_set_n_maximum (p, hval[2]);
      }
      if (cn) orc_program_set_constant_n (p, 16);
      orc_program_add_destination (p, 2, "d1");
      orc_program_add_source (p, 2, "s1");
      orc_program_add_constant (p, 2, 3, "c1");
      orc_program_append_str (p, "addw", "d1", "s1", "c1");
      st_programs++; st_renderings++;
      memset (&f, 0, sizeof (f)); memset (&dummy, 0, sizeof (dummy));
      snprintf (dummy.name, sizeof (dummy.name), "vLN");
      n = orc_parse_full (text, &progs, &log);
      errs = 0;
      if (log) { const char *c; for (c = log; *c; c++) if (*c == '\n') errs++; if (*log && !errs) errs = 1; }
      msg[0] = 0;
      if (n != 1 || !progs || !progs[0]) snprintf (msg, sizeof (msg), "`%s`: %d programs parsed", line, n);
      else if (errs) snprintf (msg, sizeof (msg), "`%s`: the parser reports %d error line(s): %.150s", line, errs, log);
      else {
        OrcProgram *q = progs[0];
        if (q->constant_n != p->constant_n || q->n_multiple != p->n_multiple || q->n_minimum != p->n_minimum || q->n_maximum != p->n_maximum)
          snprintf (msg, sizeof (msg), "`%s`: parsed constant_n/multiple/minimum/maximum = %d/%d/%d/%d, built through the API %d/%d/%d/%d", line,
              q->constant_n, q->n_multiple, q->n_minimum, q->n_maximum, p->constant_n, p->n_multiple, p->n_minimum, p->n_maximum);
        else { char m2[200]; if (emulate_equal (p, q, m2, sizeof (m2))) snprintf (msg, sizeof (msg), "`%s`: %s", line, m2); }
      }
      if (msg[0]) {
        char cls[60];
        snprintf (cls, sizeof (cls), "n-directive|%s%s%s%s", nh > 0 ? hint[h[0]] : "", nh > 1 ? hint[h[1]] : "", nh > 2 ? hint[h[2]] : "", cn ? "+n" : "");
        viol (&dummy, cls, msg, text, &f, 0);
      }
      if (log) free (log);
      orc_program_free (p);
    }
  }
  /* LD: the order of the shape directives: every order of .flags 2d, .n 16, .m 3 (and of every two of them), placed
   * before the declarations, and with .m / .flags after them; the API twin makes the same calls in the same order */
  if (shard == 0 && start == 0) {
    static const int perms[6][3] = { { 0, 1, 2 }, { 0, 2, 1 }, { 1, 0, 2 }, { 1, 2, 0 }, { 2, 0, 1 }, { 2, 1, 0 } };
    static const char *dir[3] = { ".flags 2d", ".n 16", ".m 3" };
    int pi, mask, late;
    for (pi = 0; pi < 6; pi++) for (mask = 1; mask < 8; mask++) for (late = 0; late < 2; late++) {
      char text[600], msg[300], *log = NULL;
      size_t o = 0;
      int k, n, errs = 0;
      OrcProgram *p, **progs = NULL;
      Fmt f;
      VProg dummy;
      if (late && !(mask & 5)) continue;
      p = orc_program_new ();
      snprintf (msg, sizeof (msg), "vLD_%d_%d_%d", pi, mask, late);
      orc_program_set_name (p, msg);
      o += snprintf (text + o, sizeof (text) - o, ".function %s\n", msg);
      if (late) { o += snprintf (text + o, sizeof (text) - o, ".dest 2 d1\n.source 2 s1\n"); orc_program_add_destination (p, 2, "d1"); orc_program_add_source (p, 2, "s1"); }
      for (k = 0; k < 3; k++) {
        int d = perms[pi][k];
        if (!(mask >> d & 1)) continue;
        o += snprintf (text + o, sizeof (text) - o, "%s\n", dir[d]);
        if (d == 0) orc_program_set_2d (p); else if (d == 1) orc_program_set_constant_n (p, 16); else orc_program_set_constant_m (p, 3);
      }
      if (!late) { o += snprintf (text + o, sizeof (text) - o, ".dest 2 d1\n.source 2 s1\n"); orc_program_add_destination (p, 2, "d1"); orc_program_add_source (p, 2, "s1"); }
      o += snprintf (text + o, sizeof (text) - o, "addw d1, s1, 3\n");
      orc_program_add_constant (p, 2, 3, "c1");
      orc_program_append_str (p, "addw", "d1", "s1", "c1");
      st_programs++; st_renderings++;
      memset (&f, 0, sizeof (f)); memset (&dummy, 0, sizeof (dummy));
      snprintf (dummy.name, sizeof (dummy.name), "vLD");
      n = orc_parse_full (text, &progs, &log);
      if (log) { const char *c; for (c = log; *c; c++) if (*c == '\n') errs++; if (*log && !errs) errs = 1; }
      msg[0] = 0;
      if (n != 1 || !progs || !progs[0]) snprintf (msg, sizeof (msg), "%d programs parsed", n);
      else if (errs) snprintf (msg, sizeof (msg), "the parser reports %d error line(s): %.150s", errs, log);
      else {
        OrcProgram *q = progs[0];
        if (q->is_2d != p->is_2d || q->constant_n != p->constant_n || q->constant_m != p->constant_m)
          snprintf (msg, sizeof (msg), "parsed 2d/constant n/constant m = %d/%d/%d, the same calls through the API give %d/%d/%d", q->is_2d, q->constant_n, q->constant_m, p->is_2d, p->constant_n, p->constant_m);
        else if (!(p->constant_m > 0 && !p->is_2d)) { char m2[200]; if (emulate_equal (p, q, m2, sizeof (m2))) snprintf (msg, sizeof (msg), "%s", m2); }
      }
      if (msg[0]) {
        char cls[60];
        snprintf (cls, sizeof (cls), "directive-order|%d%d%d/%d%s", perms[pi][0], perms[pi][1], perms[pi][2], mask, late ? "/after-declarations" : "");
        viol (&dummy, cls, msg, text, &f, 0);
      }
      if (log) free (log);
      orc_program_free (p);
    }
  }
  if (strstr (g_levels, "L1")) pgen_L1 (on_prog, &start, PG_INT | PG_FLOAT);
  if (strstr (g_levels, "L2")) pgen_L2 (on_prog, &start, PG_INT | PG_FLOAT);
  if (strstr (g_levels, "L3")) { pgen_L3 (on_prog, &start, PG_INT); pgen_L3 (on_prog, &start, PG_FLOAT); }
  if (strstr (g_levels, "L5")) pgen_L5 (on_prog, &start);
  v_out ("{\"t\":\"stat\",\"programs\":%ld,\"renderings\":%ld,\"emulation_comparisons\":%ld,\"violations_raw\":%ld}", st_programs, st_renderings, st_emul, st_viol);
  v_out ("{\"t\":\"max\",\"space_size\":%ld}", g_idx);
}

int main (int argc, char **argv)
{
  shard = v_argi (argc, argv, "--shard", 0);
  nshards = v_argi (argc, argv, "--nshards", 1);
  thorough = !strcmp (v_arg (argc, argv, "--tier", "quick"), "thorough");
  g_levels = v_arg (argc, argv, "--levels", "L1");
  v_supervise (worker, NULL, "C15");
  return 0;
}
