/* xemu: every opcode against the independent reference (ref/orcref.h) over
 * exhaustively enumerated operand tables, on a chosen execution path
 * (emulation for C02; emulation / sse / avx for C18's float opcodes).
 *   - all 2^8 / 2^16 operand values, all 2^16 byte pairs, 16-bit pairs
 *     B16 x all and all x B16 (quick) or all 2^32 pairs (thorough), all pairs
 *     of the boundary alphabets for 32/64-bit and float lanes
 *   - operand kinds array / constant / parameter, prefixes x1 / x2 / x4
 *   - every shift count, load offsets, upsampling / resampling index functions
 *   - accumulators summed from zero modulo 2^16 / 2^32
 *   - position independence: results for the first n tuples (n = 1..48) must
 *     equal the prefix of the full-table run */
#include "pgen.h"
#include "../ref/orcref.h"

static int shard, nshards, thorough, want_float;
static const char *only_op;
static const char *path = "emulate";
static OrcTarget *target;
static unsigned tflags;
static long st_ops, st_forms, st_elems, st_viol, st_runs, st_skipped;
static char *seen[400];
static int nseen, nsamples;

static void viol (const char *op, const char *cls, const char *form, const char *msg)
{
  char key[300];
  int i;
  st_viol++;
  snprintf (key, sizeof (key), "%s|%s|%s|%s|%s", want_float ? "C18" : "C02", cls, path, op, form);
  for (i = 0; i < nseen; i++) if (!strcmp (seen[i], key)) return;
  if (nseen < 400) seen[nseen++] = strdup (key);
  v_out ("{\"t\":\"viol\",\"key\":\"%s\",\"what\":\"%s %s on path %s: %s\",\"replay\":{\"opcode\":\"%s\",\"form\":\"%s\",\"path\":\"%s\"}}", v_esc (key), op, form, path, v_esc (msg), op, form, path);
}

static uint64_t getv (const unsigned char *p, int sz) { uint64_t v = 0; memcpy (&v, p, sz); return v; }
static void putv (unsigned char *p, int sz, uint64_t v) { memcpy (p, &v, sz); }

/* operand alphabets */
static uint64_t *alpha (int sz, int isfloat, long *n)
{
  long i, k;
  uint64_t *v;
  if (sz == 1) { k = 256; v = malloc (8 * k); for (i = 0; i < k; i++) v[i] = i; }
  else if (sz == 2) { k = 65536; v = malloc (8 * k); for (i = 0; i < k; i++) v[i] = i; }
  else if (sz == 4) { k = isfloat ? VNF32 : VNB32; v = malloc (8 * k); for (i = 0; i < k; i++) v[i] = isfloat ? VF32[i] : VB32[i]; }
  else { k = isfloat ? VNF64 : VNB64; v = malloc (8 * k); for (i = 0; i < k; i++) v[i] = isfloat ? VF64[i] : VB64[i]; }
  *n = k;
  return v;
}

/* run one compiled program over arrays; returns 0 ok, signal otherwise */
static int run_prog (OrcProgram * p, int n, void *d1, void *d2, void *s1, void *s2, int64_t pval, int haspar, int parsize, int *acc)
{
  OrcExecutor ex;
  int sig = 0;
  memset (&ex, 0, sizeof (ex));
  orc_executor_set_program (&ex, p);
  ex.n = n;
  ex.arrays[ORC_VAR_D1] = d1; ex.arrays[ORC_VAR_D2] = d2; ex.arrays[ORC_VAR_S1] = s1; ex.arrays[ORC_VAR_S2] = s2;
  if (haspar) { if (parsize == 8) orc_executor_set_param_int64 (&ex, ORC_VAR_P1, pval); else orc_executor_set_param (&ex, ORC_VAR_P1, (int) pval); }
  if (target) { V_CONFINED (orc_executor_run (&ex), sig); }
  else { V_CONFINED (orc_executor_emulate (&ex), sig); }
  if (acc) *acc = ex.accumulators[0];
  st_runs++;
  return sig;
}

static int compile_prog (OrcProgram * p)
{
  OrcCompileResult r;
  if (target) { r = orc_program_compile_full (p, target, tflags); return ORC_COMPILE_RESULT_IS_SUCCESSFUL (r); }
  r = orc_program_compile_for_target (p, NULL);
  return !ORC_COMPILE_RESULT_IS_FATAL (r) && p->orccode;
}

/* check one plain (non-load/store/acc) opcode in one form */
static void check_form (const OrcStaticOpcode * o, int mult, int kind /* 0 SS, 1 SC, 2 SP */ )
{
  int nsrc = op_nsrc (o), isf_src = (o->flags & ORC_STATIC_OPCODE_FLOAT_SRC) != 0;
  int ss0 = o->src_size[0], ss1 = nsrc > 1 ? o->src_size[1] : 0, ds = o->dest_size[0], ds2 = o->dest_size[1];
  int scalar = (o->flags & ORC_STATIC_OPCODE_SCALAR) != 0;
  long na, nb = 1, ia, ib, T, k;
  int full16;
  uint64_t *va = alpha (ss0, isf_src, &na), *vb = NULL;
  char form[64];
  unsigned char *S1, *S2 = NULL, *D1, *D2 = NULL;
  long bchunks = 1, bc;
  snprintf (form, sizeof (form), "x%d/%s", mult, kind == 0 ? "arrays" : kind == 1 ? "const" : "param");
  if (nsrc < 2 && kind != 0) { free (va); return; }
  if (scalar && kind == 0) { free (va); return; }
  if (nsrc > 1) {
    if (scalar) { nb = ss0 * 8; vb = malloc (8 * nb); for (k = 0; k < nb; k++) vb[k] = k; }
    else vb = alpha (ss1, isf_src, &nb);
  }
  st_forms++;
  /* layout of the tuple table: arrays kind: all pairs in one run (8-bit: 65536; 16-bit: restricted or chunked; wide: |B|^2);
   * const/param kind: one run per b value over all a (b restricted to a boundary subset for 16-bit) */
  if (kind == 0 && nsrc > 1 && ss0 == 2 && ss1 == 2) bchunks = 65536;	/* per chunk: b fixed, all a */
  full16 = thorough && mult == 1;	/* all 2^32 pairs for the plain form; x2/x4 forms use the boundary rows and columns */
  for (bc = 0; bc < (kind == 0 ? bchunks : nb); bc++) {
    long nbrun;
    OrcProgram *p;
    int d, d2v = -1, s1, s2 = -1, okc;
    uint64_t bfixed = 0;
    int use_fixed = 0;
    if (kind == 0 && bchunks > 1) {
      /* 16-bit pairs: thorough = every b; quick = b in B16 plus (all b) x (a in B16) handled by the transposed pass below */
      if (!full16) { int inb = 0, q; for (q = 0; q < VNB16; q++) if (VB16[q] == (uint64_t) bc) inb = 1; if (!inb) continue; }
      bfixed = bc; use_fixed = 1;
    } else if (kind != 0) {
      bfixed = vb[bc]; use_fixed = 1;
      if (ss1 == 2 && !scalar) { int inb = 0, q; for (q = 0; q < VNB16; q++) if (VB16[q] == bfixed) inb = 1; if (!inb) continue; }
    }
    nbrun = use_fixed ? 1 : nb;
    T = na * nbrun;
    /* elements hold `mult` lanes: pad T to a multiple of mult */
    {
      long nelem = (T + mult - 1) / mult;
      S1 = calloc (nelem + 64, ss0 * mult); D1 = calloc (nelem + 64, ds * mult);
      if (nsrc > 1 && kind == 0) S2 = calloc (nelem + 64, ss1 * mult);
      if (ds2) D2 = calloc (nelem + 64, ds2 * mult);
      for (k = 0; k < nelem * mult; k++) {
        long kk = k < T ? k : T - 1;
        ia = kk % na; ib = kk / na;
        putv (S1 + k * ss0, ss0, va[ia]);
        if (S2) putv (S2 + k * ss1, ss1, use_fixed ? bfixed : vb[ib]);
      }
      p = orc_program_new ();
      orc_program_set_name (p, "xemu");
      d = orc_program_add_destination (p, ds * mult, "d1");
      if (ds2) d2v = orc_program_add_destination (p, ds2 * mult, "d2");
      s1 = orc_program_add_source (p, ss0 * mult, "s1");
      if (nsrc > 1) {
        if (kind == 0) s2 = orc_program_add_source (p, ss1 * mult, "s2");
        else if (kind == 1) s2 = ss1 == 8 ? orc_program_add_constant_int64 (p, 8, (orc_int64) bfixed, "c1") : orc_program_add_constant (p, ss1, (int) (ss1 == 4 ? (int32_t) bfixed : (int64_t) bfixed), "c1");
        else s2 = ss1 == 8 ? (isf_src ? orc_program_add_parameter_double (p, 8, "p1") : orc_program_add_parameter_int64 (p, 8, "p1"))
            : (isf_src && ss1 == 4 ? orc_program_add_parameter_float (p, 4, "p1") : orc_program_add_parameter (p, ss1, "p1"));
      }
      if (ds2) orc_program_append_2 (p, o->name, mult == 2 ? 1 : mult == 4 ? 2 : 0, d, d2v, s1, -1);
      else orc_program_append_2 (p, o->name, mult == 2 ? 1 : mult == 4 ? 2 : 0, d, s1, s2, -1);
      okc = compile_prog (p);
      if (!okc) {
        st_skipped++;
        if (!target) viol (o->name, "nocompile", form, "program does not compile for emulation");
        orc_program_free (p); free (S1); free (D1); free (S2); free (D2); S2 = D2 = NULL;
        break;
      }
      {
        int sig = run_prog (p, (int) nelem, D1, D2, S1, S2, (int64_t) (ss1 == 4 ? (int64_t) (int32_t) bfixed : (int64_t) bfixed), kind == 2, ss1, NULL);
        if (sig) { char m[100]; snprintf (m, sizeof (m), "signal %d while running", sig); viol (o->name, "crash", form, m); }
        else {
          for (k = 0; k < T; k++) {
            uint64_t a, b, want, want2, got, got2 = 0;
            int cls, okv;
            ia = k % na; ib = k / na;
            a = va[ia]; b = nsrc > 1 ? (use_fixed ? bfixed : vb[ib]) : 0;
            if (!ref_eval (o->name, ds, ds2, ss0, ss1, a, b, &want, &want2, &cls)) { viol (o->name, "no-reference", form, "opcode unknown to the reference interpreter"); break; }
            got = getv (D1 + k * ds, ds);
            if (ds2) got2 = getv (D2 + k * ds2, ds2);
            st_elems++;
            okv = 1;
            if (cls == REF_UNSPECIFIED) continue;
            if (cls == REF_EXACT) okv = got == want && (!ds2 || got2 == want2);
            else if (cls == REF_EITHER_OPERAND) okv = got == want || got == want2;
            else if (cls == REF_ANY_NAN) okv = ds == 4 ? ref_isnan32 ((uint32_t) got) : ref_isnan64 (got);
            if (!okv && cls == REF_EXACT && !ds2 && ((ds == 4 && (got & 0x7fffffffu) == 0 && (want & 0x7fffffffu) == 0x00800000u && (got >> 31) == (want >> 31)) ||
                    (ds == 8 && (got & 0x7fffffffffffffffULL) == 0 && (want & 0x7fffffffffffffffULL) == 0x0010000000000000ULL && (got >> 63) == (want >> 63)))) {
              /* result tiny before rounding, smallest normal after: hardware flush-to-zero acts before rounding.  One finding per opcode and path; keep scanning. */
              char m[260];
              snprintf (m, sizeof (m), "operands a=0x%llx b=0x%llx: got a zero, reference 0x%llx (IEEE result rounds up to the smallest normal, which is not a denormal)", (unsigned long long) a, (unsigned long long) b, (unsigned long long) want);
              viol (o->name, "ftz-before-rounding", "any", m);
              continue;
            }
            if (!okv) {
              char m[260];
              snprintf (m, sizeof (m), "operands a=0x%llx b=0x%llx (tuple %ld, lane %ld): got 0x%llx%s, reference 0x%llx%s", (unsigned long long) a, (unsigned long long) b, k, k % mult,
                  (unsigned long long) got, ds2 ? "/second dest differs or" : "", (unsigned long long) want, cls == REF_ANY_NAN ? " (any NaN)" : cls == REF_EITHER_OPERAND ? " (or the other operand)" : "");
              viol (o->name, "value", form, m);
              break;
            }
          }
          /* position / n independence: prefixes must reproduce the full-table results */
          if (bc == 0 || (bc % 97) == 0) {
            int n2;
            unsigned char *E1 = calloc (64, ds * mult);
            for (n2 = 1; n2 <= 48 && n2 <= nelem; n2++) {
              memset (E1, 0x5a, 64 * ds * mult);
              if (run_prog (p, n2, E1, D2 ? calloc (64, ds2 * mult) : NULL, S1, S2, (int64_t) (ss1 == 4 ? (int64_t) (int32_t) bfixed : (int64_t) bfixed), kind == 2, ss1, NULL)) continue;
              if (memcmp (E1, D1, (size_t) n2 * ds * mult)) {
                /* NaN payload / either-operand results are allowed to differ only if the reference says so; be exact here: same path, same inputs */
                char m[160];
                snprintf (m, sizeof (m), "results for the first %d elements differ between n=%d and n=%ld (position / n dependence)", n2, n2, nelem);
                viol (o->name, "position", form, m);
                break;
              }
            }
            free (E1);
          }
        }
      }
      orc_program_free (p);
      free (S1); free (D1); free (S2); free (D2); S2 = D2 = NULL;
    }
    if (v_expired ()) break;
  }
  /* transposed 16-bit pass (quick): a in B16, all b */
  if (kind == 0 && bchunks > 1 && !full16) {
    int q;
    for (q = 0; q < VNB16; q++) {
      OrcProgram *p = orc_program_new_dss (2 * mult, 2 * mult, 2 * mult);
      long nelem = 65536 / mult;
      S1 = calloc (nelem + 64, 2 * mult); S2 = calloc (nelem + 64, 2 * mult); D1 = calloc (nelem + 64, 2 * mult);
      for (k = 0; k < 65536; k++) { putv (S1 + k * 2, 2, VB16[q]); putv (S2 + k * 2, 2, (uint64_t) k); }
      orc_program_set_name (p, "xemu16");
      orc_program_append_2 (p, o->name, mult == 2 ? 1 : mult == 4 ? 2 : 0, ORC_VAR_D1, ORC_VAR_S1, ORC_VAR_S2, -1);
      if (compile_prog (p) && !run_prog (p, (int) nelem, D1, NULL, S1, S2, 0, 0, 0, NULL)) {
        for (k = 0; k < 65536; k++) {
          uint64_t want, want2, got = getv (D1 + k * 2, 2);
          int cls;
          ref_eval (o->name, 2, 0, 2, 2, VB16[q], (uint64_t) k, &want, &want2, &cls);
          st_elems++;
          if (got != want) {
            char m[200];
            snprintf (m, sizeof (m), "operands a=0x%llx b=0x%lx: got 0x%llx, reference 0x%llx", (unsigned long long) VB16[q], k, (unsigned long long) got, (unsigned long long) want);
            viol (o->name, "value", form, m);
            break;
          }
        }
      }
      orc_program_free (p);
      free (S1); free (S2); free (D1); S2 = NULL;
    }
  }
  free (va);
  free (vb);
}

/* accumulators: sums from zero modulo 2^16 / 2^32 */
static void check_acc (const OrcStaticOpcode * o)
{
  static const int ns[] = { 0, 1, 15, 16, 17, 33, 1000, 65536, 70001 };
  int i, ss = o->src_size[0], two = o->src_size[1] != 0;
  for (i = 0; i < 9; i++) {
    int n = ns[i], k, acc = 0x5a5a5a5a, sig;
    unsigned char *S1 = calloc (n + 64, ss), *S2 = two ? calloc (n + 64, ss) : NULL;
    uint64_t sum = 0;
    OrcProgram *p = orc_program_new ();
    int a, s1, s2 = -1;
    orc_program_set_name (p, "xacc");
    a = orc_program_add_accumulator (p, o->dest_size[0], "a1");
    s1 = orc_program_add_source (p, ss, "s1");
    if (two) s2 = orc_program_add_source (p, ss, "s2");
    orc_program_append_2 (p, o->name, 0, a, s1, s2, -1);
    for (k = 0; k < n; k++) {
      uint64_t v1 = ss == 1 ? (uint64_t) ((k * 7 + 3) & 0xff) : ss == 2 ? (uint64_t) ((k * 40503u + 12345u) & 0xffff) : VB32[k % VNB32] + (uint64_t) k * 2654435761u;
      uint64_t v2 = (uint64_t) ((k * 13 + (k >> 8)) & 0xff);
      putv (S1 + k * ss, ss, v1);
      if (two) putv (S2 + k * ss, ss, v2);
      if (!strcmp (o->name, "accsadubl")) { int dd = (int) (v1 & 0xff) - (int) v2; sum += (uint64_t) (dd < 0 ? -dd : dd); }
      else sum += v1 & ref_mask (ss);
    }
    if (!compile_prog (p)) { st_skipped++; orc_program_free (p); free (S1); free (S2); return; }
    sig = run_prog (p, n, NULL, NULL, S1, S2, 0, 0, 0, &acc);
    st_elems += n;
    if (sig) viol (o->name, "crash", "acc", "signal while running");
    else {
      uint64_t m = o->dest_size[0] == 2 ? 0xffff : 0xffffffffu;
      if (((uint64_t) (unsigned) acc & m) != (sum & m)) {
        char msg[160];
        snprintf (msg, sizeof (msg), "n=%d: accumulator 0x%x, reference sum modulo 2^%d is 0x%llx", n, acc, o->dest_size[0] * 8, (unsigned long long) (sum & m));
        viol (o->name, "value", "acc", msg);
      }
    }
    orc_program_free (p);
    free (S1); free (S2);
  }
  st_forms++;
}

/* loads and stores: index functions */
static void check_load (const OrcStaticOpcode * o)
{
  int sz = o->dest_size[0], n, k, variant, pk, npk = (op_is_loadoff (o) ? 2 : op_is_ldres (o) ? 3 : 1);
  st_forms++;
  /* pk: scalar operands given as constants (0), or one of them as a run-time parameter (1: offset / start, 2: step) */
  for (pk = 0; pk < npk; pk++)
  for (variant = 0; variant < 8; variant++) {
    static const int offs[] = { 0, 1, -1, 3, -4, 7, -7, 2 };
    static const int st[] = { 0, 0x8000, 0x18000, 0, 0xffff, 0x4000, -0x18000, 0x300000 };
    static const int inc[] = { 0x10000, 0x8000, 0x18000, 0x5555, 0x10001, 0x23456, 0x10000, -0x8000 };
    for (n = 0; n <= 50; n += (n < 20 ? 1 : 5)) {
      long srclen = 4 * n + 64;
      unsigned char *S = calloc (srclen + 16, sz), *D = calloc (n + 64, sz), *S0 = S + 8 * sz;
      OrcProgram *p = orc_program_new ();
      int d, s, c1 = -1, c2 = -1, bad = 0;
      char form[40];
      snprintf (form, sizeof (form), "variant%d%s", variant, pk == 1 ? "/param1" : pk == 2 ? "/param2" : "");
      for (k = -8; k < srclen; k++) putv (S0 + k * sz, sz, (uint64_t) (k * 2654435761u + 12345) ^ ((uint64_t) k << 32));
      orc_program_set_name (p, "xload");
      d = orc_program_add_destination (p, sz, "d1");
      if (op_is_loadp (o)) {
        c1 = sz == 8 ? orc_program_add_constant_int64 (p, 8, (orc_int64) VB64[(variant * 7 + n) % VNB64], "c1") : orc_program_add_constant (p, sz, (int) VB32[(variant * 5 + n) % VNB32], "c1");
        orc_program_append_2 (p, o->name, 0, d, c1, -1, -1);
      } else {
        s = orc_program_add_source (p, o->src_size[0], "s1");
        if (op_is_loadoff (o)) { c1 = pk == 1 ? orc_program_add_parameter (p, 4, "p1") : orc_program_add_constant (p, 4, offs[variant], "c1"); orc_program_append_2 (p, o->name, 0, d, s, c1, -1); }
        else if (op_is_ldres (o)) {
          c1 = pk == 1 ? orc_program_add_parameter (p, 4, "p1") : orc_program_add_constant (p, 4, st[variant], "c1");
          c2 = pk == 2 ? orc_program_add_parameter (p, 4, "p1") : orc_program_add_constant (p, 4, inc[variant], "c2");
          orc_program_append_2 (p, o->name, 0, d, s, c1, c2);
        }
        else orc_program_append_2 (p, o->name, 0, d, s, -1, -1);
      }
      if (!compile_prog (p)) { st_skipped++; orc_program_free (p); free (S); free (D); return; }
      if (run_prog (p, n, D, NULL, S0, NULL, op_is_loadoff (o) ? offs[variant] : pk == 1 ? st[variant] : inc[variant], pk != 0, 4, NULL)) { viol (o->name, "crash", form, "signal while running"); bad = 1; }
      for (k = 0; k < n && !bad; k++) {
        uint64_t want, got = getv (D + k * sz, sz);
        if (op_is_loadp (o)) want = (sz == 8 ? VB64[(variant * 7 + n) % VNB64] : (uint64_t) (int64_t) (int) VB32[(variant * 5 + n) % VNB32]) & ref_mask (sz);
        else if (op_is_loadoff (o)) want = getv (S0 + (k + offs[variant]) * sz, sz);
        else if (!strcmp (o->name, "loadupdb")) want = getv (S0 + (k >> 1), 1);
        else if (!strcmp (o->name, "loadupib")) want = (k & 1) ? ((getv (S0 + (k >> 1), 1) + getv (S0 + (k >> 1) + 1, 1) + 1) >> 1) : getv (S0 + (k >> 1), 1);
        else if (!strncmp (o->name, "ldresnear", 9)) want = getv (S0 + (((long) st[variant] + (long) k * inc[variant]) >> 16) * sz, sz);
        else if (!strncmp (o->name, "ldreslin", 8)) {
          long pos = (long) st[variant] + (long) k * inc[variant], idx = pos >> 16, fr = (pos >> 8) & 0xff;
          int j;
          want = 0;
          for (j = 0; j < sz; j++) {
            unsigned a = S0[idx * sz + j], b = S0[(idx + 1) * sz + j];
            want |= (uint64_t) (((a * (256 - fr) + b * fr) >> 8) & 0xff) << (8 * j);
          }
        } else want = getv (S0 + k * sz, sz);	/* loadX / storeX / copy */
        st_elems++;
        if (got != want) {
          char m[200];
          snprintf (m, sizeof (m), "n=%d element %d: got 0x%llx, reference 0x%llx", n, k, (unsigned long long) got, (unsigned long long) want);
          viol (o->name, "value", form, m);
          bad = 1;
        }
      }
      orc_program_free (p);
      free (S); free (D);
      if (bad) return;
    }
    if (!op_is_loadoff (o) && !op_is_ldres (o) && !op_is_loadp (o)) break;
  }
}

static void worker (long start, void *user)
{
  int oi;
  (void) user;
  orc_init ();
  v_ops_init ();
  v_install_handlers ();
  if (strcmp (path, "emulate")) {
    target = orc_target_get_by_name (path);
    tflags = orc_target_get_default_flags (target);
  }
  for (oi = 0; oi < v_nops; oi++) {
    const OrcStaticOpcode *o = &v_ops[oi];
    int isf = op_is_float (o), mult, kind;
    char key[120];
    if (oi < start || (oi % nshards) != shard) continue;
    if (isf != want_float) continue;
    if (only_op && strcmp (only_op, o->name)) continue;
    snprintf (key, sizeof (key), "%s|crash|%s|%s", want_float ? "C18" : "C02", path, o->name);
    v_case (oi, key, o->name);
    v_watchdog (thorough ? 3000 : 600);
    st_ops++;
    if (o->flags & ORC_STATIC_OPCODE_ACCUMULATOR) { check_acc (o); continue; }
    if (o->flags & (ORC_STATIC_OPCODE_LOAD | ORC_STATIC_OPCODE_STORE)) { check_load (o); continue; }
    for (mult = 1; mult <= 4; mult *= 2) {
      int maxsz = o->dest_size[0], k;
      for (k = 0; k < 4; k++) if (o->src_size[k] > maxsz) maxsz = o->src_size[k];
      if (o->dest_size[1] > maxsz) maxsz = o->dest_size[1];
      if (maxsz * mult > 8) continue;
      for (kind = 0; kind < 3; kind++) {
        if (kind > 0 && mult > 1 && o->src_size[0] <= 2 && !thorough && !(o->flags & ORC_STATIC_OPCODE_SCALAR)) continue;	/* quick: const/param kinds with x2/x4 only for wide lanes and shifts */
        check_form (o, mult, kind);
      }
    }
    if (nsamples < 2 && (oi % 37) == 5) { nsamples++; v_out ("{\"t\":\"sample\",\"opcode\":\"%s\",\"path\":\"%s\",\"forms\":\"x1/x2/x4 x arrays/const/param\",\"operands\":\"all values / all pairs of the alphabet of its width\"}", o->name, path); }
  }
  v_out ("{\"t\":\"stat\",\"opcodes\":%ld,\"forms\":%ld,\"elements_compared\":%ld,\"runs\":%ld,\"forms_not_compilable\":%ld,\"violations_raw\":%ld}", st_ops, st_forms, st_elems, st_runs, st_skipped, st_viol);
}

int main (int argc, char **argv)
{
  int dl = v_argi (argc, argv, "--deadline", 0);
  shard = v_argi (argc, argv, "--shard", 0);
  nshards = v_argi (argc, argv, "--nshards", 1);
  thorough = !strcmp (v_arg (argc, argv, "--tier", "quick"), "thorough");
  want_float = !strcmp (v_arg (argc, argv, "--classes", "int"), "float");
  path = v_arg (argc, argv, "--path", "emulate");
  only_op = v_arg (argc, argv, "--only", NULL);
  if (dl > 0) v_deadline = v_now () + dl;
  v_supervise (worker, NULL, want_float ? "C18" : "C02");
  return 0;
}
