/* xcpu: exhaustive enumeration of CPU configuration vectors presented to the
 * library through the cpuid/xgetbv hooks, one forked child per vector (the
 * child sets the hooks and the environment before its first library call).
 * The parent compares what the library decided with a pure-function model of
 * the property (C19). */
#include "vcommon.h"
#include <orc/orcverif.h>

/* feature bits of a vector */
enum { F_MMX = 1, F_SSE2 = 2, F_SSE3 = 4, F_SSSE3 = 8, F_SSE41 = 16, F_SSE42 = 32, F_XSAVE = 64, F_OSXSAVE = 128,
  F_AVX = 256, F_AVX2 = 512, F_XCR_XMM = 1024, F_XCR_YMM = 2048, F_ALL = 4095 };

typedef struct {
  unsigned feat;
  int vendor;			/* 0 intel, 1 amd, 2 other */
  int maxleaf;
  int ovar;			/* 0 none, 1 ORC_TARGET, 2 ORC_BACKEND */
  int oval;			/* index into ovals */
  int knock;			/* 0 none, 1 -avx2, 2 -sse2 */
} Vec;

static const char *ovals[] = { "mmx", "sse", "avx", "c", "neon", "bogus", "" };
#define NOVALS 7
static const char *knocks[] = { NULL, "-avx2", "-sse2" };

static Vec cur;

static int cpuid_hook (orc_uint32 op, orc_uint32 ecx_in, orc_uint32 *a, orc_uint32 *b, orc_uint32 *c, orc_uint32 *d)
{
  static const char *vs[] = { "GenuineIntel", "AuthenticAMD", "VerifTestCPU" };
  unsigned leaf = op;
  (void) ecx_in;
  *a = *b = *c = *d = 0;
  if (op >= 0x80000000u) {
    if (op == 0x80000000u) *a = 0x80000004u;
    return 1;
  }
  if (leaf > (unsigned) cur.maxleaf) {
    /* Intel: data of the highest basic leaf; others: zeros */
    if (cur.vendor != 0) return 1;
    leaf = cur.maxleaf;
  }
  switch (leaf) {
    case 0:
      *a = cur.maxleaf;
      memcpy (b, vs[cur.vendor], 4);
      memcpy (d, vs[cur.vendor] + 4, 4);
      memcpy (c, vs[cur.vendor] + 8, 4);
      break;
    case 1:
      *a = 0x000306a9;
      *b = 0x00100800;
      if (cur.feat & F_SSE3) *c |= 1u << 0;
      if (cur.feat & F_SSSE3) *c |= 1u << 9;
      if (cur.feat & F_SSE41) *c |= 1u << 19;
      if (cur.feat & F_SSE42) *c |= 1u << 20;
      if (cur.feat & F_XSAVE) *c |= 1u << 26;
      if (cur.feat & F_OSXSAVE) *c |= 1u << 27;
      if (cur.feat & F_AVX) *c |= 1u << 28;
      if (cur.feat & F_MMX) *d |= 1u << 23;
      if (cur.feat & F_SSE2) *d |= 1u << 26;
      break;
    case 4:
      /* deterministic cache parameters, sub-leaf 0: 8 ways, 64-byte lines */
      *a = 0x1c004121; *b = 0x01c0003f; *c = 0x3f; *d = 0;
      break;
    case 7:
      if (cur.feat & F_AVX2) *b |= 1u << 5;
      break;
    default:
      break;
  }
  return 1;
}

static int xgetbv_hook (orc_uint32 * x)
{
  *x = 1;
  if (cur.feat & F_XCR_XMM) *x |= 2;
  if (cur.feat & F_XCR_YMM) *x |= 4;
  return 1;
}

typedef struct {
  char deflt[16];
  int exe_mmx, exe_sse, exe_avx, exe_other;
  unsigned fl_mmx, fl_sse, fl_avx;
  int compile_result;
  int native;			/* default compile installed native code */
  int ran_ok;			/* native code executed on the host and gave the right result (only attempted when safe) */
  int byname_ok;
} Obs;

static void child (int wfd)
{
  Obs o;
  OrcTarget *t;
  const char *names[] = { "c", "c64x-c", "mmx", "sse", "avx", "altivec", "neon", "mips" };
  int i;
  memset (&o, 0, sizeof (o));
  unsetenv ("ORC_TARGET"); unsetenv ("ORC_BACKEND"); unsetenv ("ORC_CODE"); unsetenv ("ORC_DEBUG");
  if (cur.ovar == 1) setenv ("ORC_TARGET", ovals[cur.oval], 1);
  if (cur.ovar == 2) setenv ("ORC_BACKEND", ovals[cur.oval], 1);
  if (cur.knock) setenv ("ORC_CODE", knocks[cur.knock], 1);
  orc_verif_cpuid_hook = cpuid_hook;
  orc_verif_xgetbv_hook = xgetbv_hook;
  orc_init ();
  t = orc_target_get_default ();
  snprintf (o.deflt, sizeof (o.deflt), "%s", t ? orc_target_get_name (t) : "(none)");
  for (i = 0; i < 8; i++) {
    OrcTarget *x = orc_target_get_by_name (names[i]);
    if (!x) continue;
    if (!strcmp (names[i], "mmx")) { o.exe_mmx = x->executable; o.fl_mmx = orc_target_get_default_flags (x); }
    else if (!strcmp (names[i], "sse")) { o.exe_sse = x->executable; o.fl_sse = orc_target_get_default_flags (x); }
    else if (!strcmp (names[i], "avx")) { o.exe_avx = x->executable; o.fl_avx = orc_target_get_default_flags (x); }
    else if (x->executable) o.exe_other = 1;
  }
  {
    OrcProgram *p = orc_program_new_dss (2, 2, 2);
    orc_program_set_name (p, "cpu_probe");
    orc_program_append_str (p, "addw", "d1", "s1", "s2");
    o.compile_result = orc_program_compile (p);
    o.native = p->code_exec && p->code_exec != (void *) orc_executor_emulate;
    /* the code the default path handed back: which back end produced it?  the listing names it */
    if (o.native) {
      const char *a = orc_program_get_asm_code (p);
      /* classify by register names used in the listing */
      if (a && strstr (a, "%ymm")) o.native = 3;
      else if (a && strstr (a, "%xmm") && strstr (a, "vp")) o.native = 3;
      else if (a && strstr (a, "%xmm")) o.native = 2;
      else if (a && strstr (a, "%mm")) o.native = 1;
      else o.native = 9;		/* not x86 at all */
    }
    orc_program_free (p);
  }
  {
    /* a target requested by name is the one used */
    OrcTarget *x = orc_target_get_by_name ("sse");
    OrcProgram *p = orc_program_new_dss (2, 2, 2);
    orc_program_set_name (p, "cpu_probe2");
    orc_program_append_str (p, "addw", "d1", "s1", "s2");
    orc_program_compile_for_target (p, x);
    o.byname_ok = orc_program_get_asm_code (p) && strstr (orc_program_get_asm_code (p), "%xmm") && !strstr (orc_program_get_asm_code (p), "%ymm");
    orc_program_free (p);
  }
  if (write (wfd, &o, sizeof (o)) != sizeof (o)) _exit (3);
  _exit (0);
}

static int consistent (unsigned f)
{
  if ((f & F_SSE2) && !(f & F_MMX)) return 0;
  if ((f & F_SSE3) && !(f & F_SSE2)) return 0;
  if ((f & F_SSSE3) && !(f & F_SSE3)) return 0;
  if ((f & F_SSE41) && !(f & F_SSSE3)) return 0;
  if ((f & F_SSE42) && !(f & F_SSE41)) return 0;
  if ((f & F_AVX) && !((f & F_SSE42) && (f & F_XSAVE))) return 0;
  if ((f & F_AVX2) && !(f & F_AVX)) return 0;
  if ((f & F_OSXSAVE) && !(f & F_XSAVE)) return 0;
  if ((f & (F_XCR_XMM | F_XCR_YMM)) && !(f & F_OSXSAVE)) return 0;
  if ((f & F_XCR_YMM) && !(f & F_XCR_XMM)) return 0;
  return 1;
}

static long n_vec, n_viol, n_cons;
static int n_samples;
#define MAXKEYS 256
static char *keys[MAXKEYS];
static int nkeys;

static void viol (const Vec * v, const Obs * o, const char *kind, const char *msg)
{
  char key[200], desc[400];
  int i;
  n_viol++;
  snprintf (key, sizeof (key), "C19|%s|%s%s%s", kind, v->ovar == 1 ? "ORC_TARGET=" : v->ovar == 2 ? "ORC_BACKEND=" : "no-override",
      v->ovar ? ovals[v->oval] : "", v->maxleaf < 7 ? "|leaf<7" : "");
  for (i = 0; i < nkeys; i++) if (!strcmp (keys[i], key)) return;
  if (nkeys < MAXKEYS) keys[nkeys++] = strdup (key);
  snprintf (desc, sizeof (desc), "feat=0x%03x vendor=%d maxleaf=%d override=%s%s knock=%s -> default=%s exe(mmx,sse,avx)=%d,%d,%d flags sse=0x%x avx=0x%x mmx=0x%x native=%d",
      v->feat, v->vendor, v->maxleaf, v->ovar == 1 ? "ORC_TARGET=" : v->ovar == 2 ? "ORC_BACKEND=" : "", v->ovar ? ovals[v->oval] : "none",
      v->knock ? knocks[v->knock] : "none", o->deflt, o->exe_mmx, o->exe_sse, o->exe_avx, o->fl_sse, o->fl_avx, o->fl_mmx, o->native);
  v_out ("{\"t\":\"viol\",\"key\":\"%s\",\"what\":\"%s: %s\",\"replay\":{\"feat\":%u,\"vendor\":%d,\"maxleaf\":%d,\"ovar\":%d,\"oval\":%d,\"knock\":%d}}",
      v_esc (key), v_esc (msg), v_esc (desc), v->feat, v->vendor, v->maxleaf, v->ovar, v->oval, v->knock);
}

static void judge (const Vec * v, const Obs * o)
{
  unsigned f = v->feat;
  int leaf1 = v->maxleaf >= 1, leaf7 = v->maxleaf >= 7;
  int p_mmx = leaf1 && (f & F_MMX), p_sse2 = leaf1 && (f & F_SSE2);
  int p_os = leaf1 && (f & F_XSAVE) && (f & F_OSXSAVE) && (f & F_XCR_XMM) && (f & F_XCR_YMM);
  int p_avx = leaf1 && (f & F_AVX) && p_os, p_avx2 = p_avx && leaf7 && (f & F_AVX2);
  int k_sse2 = v->knock == 2, k_avx2 = v->knock == 1;
  int can_mmx = p_mmx, can_sse = p_sse2 && !k_sse2, can_avx = p_avx2 && !k_avx2;
  const char *best = can_avx ? "avx" : can_sse ? "sse" : can_mmx ? "mmx" : NULL;
  unsigned sse_allowed = 0, mmx_allowed = 0;
  /* --- safety on every vector --- */
  if (o->exe_sse && !p_sse2) viol (v, o, "exec-unsupported", "sse marked executable without SSE2 presented");
  if (o->exe_avx && !p_avx2) viol (v, o, "exec-unsupported", "avx marked executable without AVX+AVX2+OS support presented");
  if (o->exe_mmx && !p_mmx) viol (v, o, "exec-unsupported", "mmx marked executable without MMX presented");
  if (o->exe_other) viol (v, o, "exec-unsupported", "a non-x86 back end is marked executable on this CPU");
  if (leaf1) {
    if (f & F_SSE2) sse_allowed |= 1u << 0;
    if (f & F_SSE3) sse_allowed |= 1u << 1;
    if (f & F_SSSE3) sse_allowed |= 1u << 2;
    if (f & F_SSE41) sse_allowed |= 1u << 3;
    if (f & F_SSE42) sse_allowed |= 1u << 4;
    if (p_avx) sse_allowed |= 1u << 10;
    if (p_avx2) sse_allowed |= 1u << 11;
    if (f & F_MMX) mmx_allowed |= 1u << 0;
    if (f & F_SSE2) mmx_allowed |= 1u << 1;	/* MMXEXT comes with SSE */
    if (f & F_SSSE3) mmx_allowed |= 1u << 4;
    if (f & F_SSE41) mmx_allowed |= 1u << 5;
  }
  {
    unsigned featmask = 0x7f | (1u << 10) | (1u << 11);
    if ((o->fl_sse & featmask) & ~sse_allowed) viol (v, o, "flags-claim", "sse default flags claim a feature the CPU did not present");
    if ((o->fl_avx & featmask) & ~sse_allowed) viol (v, o, "flags-claim", "avx default flags claim a feature the CPU did not present");
    if ((o->fl_mmx & 0x3f) & ~mmx_allowed) viol (v, o, "flags-claim", "mmx default flags claim a feature the CPU did not present");
  }
  if (!o->byname_ok && (o->fl_sse & 1)) viol (v, o, "by-name", "orc_target_get_by_name(\"sse\") + compile_for_target did not produce sse code");
  /* what the default compile path hands back must be runnable here */
  if (o->native == 9) viol (v, o, "unrunnable-default", "default compile path installed code of a non-x86 back end");
  if (o->native == 3 && !p_avx2) viol (v, o, "unrunnable-default", "default compile path installed AVX code on a CPU without AVX2/OS support");
  if (o->native == 2 && !p_sse2) viol (v, o, "unrunnable-default", "default compile path installed SSE code on a CPU without SSE2");
  if (o->native == 1 && !p_mmx) viol (v, o, "unrunnable-default", "default compile path installed MMX code on a CPU without MMX");
  /* --- selection on consistent vectors --- */
  if (consistent (f)) {
    n_cons++;
    if (o->exe_mmx != !!can_mmx || o->exe_sse != !!can_sse || o->exe_avx != !!can_avx)
      viol (v, o, "exec-missed", "executability differs from what the CPU supports");
    if (v->ovar == 0) {
      if (best && strcmp (o->deflt, best)) viol (v, o, "default", "default target is not the most capable executable back end");
      if (!best && o->native) viol (v, o, "default", "native code installed although no back end is executable");
    } else if (v->ovar == 1) {
      /* documented override variable */
      const char *want = ovals[v->oval];
      int want_exec = (!strcmp (want, "mmx") && can_mmx) || (!strcmp (want, "sse") && can_sse) || (!strcmp (want, "avx") && can_avx);
      if (want_exec && strcmp (o->deflt, want)) viol (v, o, "override-ignored", "documented override ORC_TARGET names an executable back end but it is not the one used");
      if (!want_exec && best && o->native == 0 && 0) viol (v, o, "override", "unused");
    }
  }
}

int main (int argc, char **argv)
{
  int shard = v_argi (argc, argv, "--shard", 0), nshards = v_argi (argc, argv, "--nshards", 1);
  int thorough = !strcmp (v_arg (argc, argv, "--tier", "quick"), "thorough");
  int one = v_argi (argc, argv, "--one", -1);
  long idx = 0;
  int vendor, ml, ovar, oval, knock;
  unsigned feat;
  static const int maxleafs[] = { 13, 4, 1, 0 };
  setvbuf (stdout, NULL, _IOLBF, 0);
  for (vendor = 0; vendor < 3; vendor++)
    for (ml = 0; ml < 4; ml++)
      for (knock = 0; knock < 3; knock++)
        for (ovar = 0; ovar < 3; ovar++)
          for (oval = 0; oval < (ovar ? NOVALS : 1); oval++) {
            /* quick: vendor intel x maxleaf {13,4} x no knock-outs; thorough: full product */
            if (!thorough && (vendor != 0 || ml > 1 || knock != 0) && one < 0) continue;
            for (feat = 0; feat <= F_ALL; feat++) {
              Vec v;
              int pfd[2], st;
              pid_t pid;
              Obs o;
              if ((idx++ % nshards) != shard) continue;
              if (one >= 0 && idx - 1 != one) continue;
              v.feat = feat; v.vendor = vendor; v.maxleaf = maxleafs[ml]; v.ovar = ovar; v.oval = oval; v.knock = knock;
              cur = v;
              if (pipe (pfd)) return 2;
              pid = fork ();
              if (pid == 0) { close (pfd[0]); child (pfd[1]); }
              close (pfd[1]);
              memset (&o, 0, sizeof (o));
              if (read (pfd[0], &o, sizeof (o)) != sizeof (o)) o.compile_result = -999;
              close (pfd[0]);
              waitpid (pid, &st, 0);
              n_vec++;
              if (!WIFEXITED (st) || WEXITSTATUS (st) != 0 || o.compile_result == -999) {
                Obs z; memset (&z, 0, sizeof (z));
                viol (&v, &z, "crash", "library crashed or aborted during init/selection/compile");
                continue;
              }
              judge (&v, &o);
              if (n_samples < 3 && consistent (feat) && (feat & F_SSE2) && (idx % 1231) == 7) {
                n_samples++;
                v_out ("{\"t\":\"sample\",\"feat\":\"0x%03x\",\"vendor\":%d,\"maxleaf\":%d,\"override\":\"%s%s\",\"observed_default\":\"%s\",\"exe_mmx_sse_avx\":[%d,%d,%d]}",
                    feat, vendor, maxleafs[ml], ovar == 1 ? "ORC_TARGET=" : ovar == 2 ? "ORC_BACKEND=" : "", ovar ? ovals[oval] : "", o.deflt, o.exe_mmx, o.exe_sse, o.exe_avx);
              }
            }
          }
  v_out ("{\"t\":\"stat\",\"vectors\":%ld,\"consistent\":%ld,\"violations_raw\":%ld}", n_vec, n_cons, n_viol);
  return 0;
}
