/* xdet: compilation is deterministic and independent of history (C17).
 * A run = one process: apply a history of operations (other compiles, frees,
 * runs, resets, failed compiles, application heap traffic), then compile every
 * probe program for every registered target and emit a digest of the machine
 * code and of the listing per (probe, target).  The driver runs the empty
 * history as baseline and every enumerated history x debug level; all digests
 * must be equal.  In-process obligations: recompiling after reset and
 * compiling twice give identical code; running the same code three times gives
 * identical output. */
#include "pgen.h"
#include "vrun.h"

static const char *tnames[] = { "sse", "avx", "mmx", "c", "c64x-c", "neon", "altivec", "mips" };
#define NT 8
static OrcTarget *targets[NT];
static int stride, offset_, poison, probe_min;

/* the smallest flag set of a target that still selects its base rule set (x86), or its default flags */
static unsigned min_flags (int t)
{
  unsigned def = orc_target_get_default_flags (targets[t]);
  if (t == 0) return (def & ~0x3fu) | ORC_TARGET_SSE_SSE2;
  if (t == 1) return (def & ~0x3u) | ORC_TARGET_AVX_AVX | ORC_TARGET_AVX_AVX2;
  if (t == 2) return (def & ~0x3fu) | ORC_TARGET_MMX_MMX | ORC_TARGET_MMX_MMXEXT;
  return def;
}
#define PROBE_COMPILE(p, t) (probe_min ? orc_program_compile_full (p, targets[t], min_flags (t)) : orc_program_compile_for_target (p, targets[t]))
static long g_idx;
static FILE *out;
static long n_inproc_viol;
static const char *hist;
static OrcCode *kept[64];
static int nkept;

static void poison_heap (void)
{
  /* legitimate application heap traffic: dirty the blocks the compiler will reuse */
  static const size_t sz[] = { 65536, 21464, 4096, 600, 128, 40 };
  void *p[6];
  int i;
  for (i = 0; i < 6; i++) { p[i] = malloc (sz[i]); memset (p[i], 0xA5 ^ (i * 17), sz[i]); }
  for (i = 0; i < 6; i++) free (p[i]);
}

static void digest (OrcProgram * p, OrcCompileResult r, uint64_t *hc, uint64_t *ha)
{
  *hc = v_hash64 (&r, sizeof (r), 1);
  *ha = 2;
  if (p->orccode && p->orccode->code && p->orccode->code_size > 0 && !ORC_COMPILE_RESULT_IS_FATAL (r) && ORC_COMPILE_RESULT_IS_SUCCESSFUL (r))
    *hc = v_hash64 (p->orccode->code, p->orccode->code_size, *hc);
  if (p->asm_code) *ha = v_hash64 (p->asm_code, strlen (p->asm_code), 2);
}

static void inproc_fail (OrcProgram * p, const char *target, const char *what)
{
  n_inproc_viol++;
  fprintf (out, "V %s|%s|%s\n", target, what, p->name ? p->name : "?");
}

static OrcProgram *hprog (int k);
static void probe (OrcProgram * p, long idx)
{
  int t;
  for (t = 0; t < NT; t++) {
    OrcCompileResult r;
    uint64_t hc, ha, hc2, ha2;
    int sig;
    if (!targets[t]) continue;
    if (poison) poison_heap ();
    /* a failed compile leaves its error on the program object until reset: start every compile from a reset program */
    orc_program_reset (p);
    V_CONFINED (r = PROBE_COMPILE (p, t), sig);
    if (sig) { fprintf (out, "D %ld %d crash%d 0\n", idx, t, sig); continue; }
    digest (p, r, &hc, &ha);
    fprintf (out, "D %ld %d %016llx %016llx\n", idx, t, (unsigned long long) hc, (unsigned long long) ha);
    /* in-process: reset + recompile, and a second compile without reset, must reproduce the code */
    if ((idx % 5) == 0) {
      orc_program_reset (p);
      if (poison) poison_heap ();
      V_CONFINED (r = PROBE_COMPILE (p, t), sig);
      if (!sig) {
        digest (p, r, &hc2, &ha2);
        if (hc2 != hc) inproc_fail (p, tnames[t], "recompile-after-reset-differs-code");
        if (ha2 != ha) inproc_fail (p, tnames[t], "recompile-after-reset-differs-listing");
      }
    }
    /* an executor that outlives a recompile: set up and run, then reset the program, let another program take the
     * released code memory, compile again and run through the same executor object; the executor holds no code of its
     * own, so the second run is the new code's */
    if (t < 3 && ORC_COMPILE_RESULT_IS_SUCCESSFUL (r) && (idx % 5) == 0 && p->constant_n <= 0) {
      VRunCfg c;
      VArena A0, A1;
      OrcExecutor ex, e0;
      OrcProgram *other;
      OrcCompileResult r2;
      char msg[200];
      int q, bad = 0;
      memset (&c, 0, sizeof (c));
      c.n = 37; c.m = p->is_2d ? 2 : 1; c.pchoice = 1;
      vr_arena_alloc (&A0, p, &c); vr_arena_fill (&A0, &c);
      vr_arena_alloc (&A1, p, &c); vr_arena_fill (&A1, &c);
      vr_exec_setup (&ex, p, &A0, &c);
      V_CONFINED (orc_executor_run (&ex), sig);
      if (sig) bad = 1;
      e0 = ex;
      orc_program_reset (p);
      other = hprog (1);
      orc_program_compile_full (other, targets[t], orc_target_get_default_flags (targets[t]));
      V_CONFINED (r2 = PROBE_COMPILE (p, t), sig);
      if (!sig && !bad && ORC_COMPILE_RESULT_IS_SUCCESSFUL (r2)) {
        for (q = 0; q < VR_NARR; q++) if (A1.sh.present[q]) ex.arrays[q] = A1.a[q].data;
        ex.counter1 = ex.counter2 = ex.counter3 = 0x5a5a5a5a;
        for (q = 0; q < 4; q++) ex.accumulators[q] = 0x5a5a5a5a;
        V_CONFINED (orc_executor_run (&ex), sig);
        if (sig) inproc_fail (p, tnames[t], "executor-kept-across-recompile-crashed");
        else if (vr_compare (&A1, &A0, &c, &ex, &e0, msg, sizeof (msg))) inproc_fail (p, tnames[t], "executor-kept-across-recompile-differs");
      }
      orc_program_free (other);
      vr_arena_free (&A0);
      vr_arena_free (&A1);
    }
    /* position independence + repeatable runs on executable targets */
    if (t < 3 && ORC_COMPILE_RESULT_IS_SUCCESSFUL (r) && (idx % 3) == 0 && p->constant_n <= 0) {
      VRunCfg c;
      VArena A[3];
      OrcExecutor ex;
      char msg[200];
      int k, bad = 0;
      int cfgi;
      for (cfgi = 0; cfgi < 2 && !bad; cfgi++) {
      memset (&c, 0, sizeof (c));
      c.n = 37; c.m = p->is_2d ? 2 : 1; c.pchoice = 1;
      if (cfgi == 1) {
        /* fewer elements than it takes to align a destination that starts one element past a vector boundary: the
         * path on which the loop counters are set up differently; the executor's scratch fields hold what a previous,
         * longer run would have left (vr_exec_setup fills them with a pattern) */
        int q;
        c.n = 3;
        for (q = 0; q < VR_NARR; q++) if (p->vars[q].size && (p->vars[q].vartype == ORC_VAR_TYPE_DEST || p->vars[q].vartype == ORC_VAR_TYPE_SRC) && p->vars[q].alignment <= p->vars[q].size) c.off[q] = p->vars[q].size;
      }
      for (k = 0; k < 3; k++) {
        vr_arena_alloc (&A[k], p, &c);
        vr_arena_fill (&A[k], &c);
        vr_exec_setup (&ex, p, &A[k], &c);
        /* what an earlier run left in the executor's scratch fields differs from run to run */
        ex.counter1 = ex.counter2 = ex.counter3 = k == 0 ? 0 : k == 1 ? 0x5a5a5a5a : 0x00000007;
        V_CONFINED (orc_executor_run (&ex), sig);
        if (sig) { if (!bad) inproc_fail (p, tnames[t], cfgi ? "run-crashed-short-n-misaligned" : "run-crashed"); bad = 1; }
      }
      if (!bad) {
        OrcExecutor e0 = ex;
        if (vr_compare (&A[1], &A[0], &c, &ex, &e0, msg, sizeof (msg)) || vr_compare (&A[2], &A[0], &c, &ex, &e0, msg, sizeof (msg)))
          inproc_fail (p, tnames[t], "repeated-runs-differ");
      }
      for (k = 0; k < 3; k++) vr_arena_free (&A[k]);
      }
    }
  }
}

static void on_prog (VProg * vp, void *user)
{
  long idx = g_idx++;
  OrcProgram *p;
  (void) user;
  if ((idx % stride) != offset_) return;
  p = vprog_build (vp);
  probe (p, idx);
  orc_program_free (p);
}

/* ---- history operations (single letters) ----
 * a compile program A for avx and keep its code     b compile program B for sse and keep its code
 * f free the oldest kept code                        r compile+run+free program A (sse)
 * x failed compile (no rule: float on mmx)           z fatal compile (size mismatch)
 * n compile A for neon, free                         h application heap traffic
 * g every opcode compiled for sse/avx/mmx under the smallest flag set   d the same under the default flags
 * k every scalar-operand opcode compiled for every target with operand 0 / width-1 / width */
static OrcProgram *hprog (int k)
{
  OrcProgram *p;
  if (k == 0) { p = orc_program_new_dss (2, 2, 2); orc_program_append_str (p, "addw", "d1", "s1", "s2"); }
  else if (k == 1) {
    p = orc_program_new_dss (1, 1, 1);
    orc_program_add_temporary (p, 2, "t1"); orc_program_add_temporary (p, 2, "t2");
    orc_program_append_ds_str (p, "convubw", "t1", "s1"); orc_program_append_ds_str (p, "convubw", "t2", "s2");
    orc_program_append_str (p, "mullw", "t1", "t1", "t2"); orc_program_append_ds_str (p, "div255w", "t1", "t1");
    orc_program_append_ds_str (p, "convwb", "d1", "t1");
  } else if (k == 2) { p = orc_program_new_dss (4, 4, 4); orc_program_append_str (p, "addf", "d1", "s1", "s2"); }
  else { p = orc_program_new_dss (2, 2, 2); orc_program_append_str (p, "addl", "d1", "s1", "s2"); }
  orc_program_set_name (p, k == 0 ? "hist_a" : k == 1 ? "hist_b" : k == 2 ? "hist_x" : "hist_z");
  return p;
}

static void apply_history (const char *h)
{
  for (; *h; h++) {
    OrcProgram *p;
    switch (*h) {
      case 'a': case 'b':
        p = hprog (*h == 'a' ? 0 : 1);
        orc_program_compile_for_target (p, orc_target_get_by_name (*h == 'a' ? "avx" : "sse"));
        if (nkept < 64) kept[nkept++] = orc_program_take_code (p);
        orc_program_free (p);
        break;
      case 'f':
        if (nkept) { if (kept[0]) orc_code_free (kept[0]); memmove (kept, kept + 1, sizeof (kept[0]) * (nkept - 1)); nkept--; }
        break;
      case 'r': {
        short s1[40] = { 1, 2, 3 }, s2[40] = { 4, 5, 6 }, d[40];
        OrcExecutor ex;
        p = hprog (0);
        orc_program_compile_for_target (p, orc_target_get_by_name ("sse"));
        memset (&ex, 0, sizeof (ex));
        orc_executor_set_program (&ex, p);
        ex.n = 33; ex.arrays[ORC_VAR_D1] = d; ex.arrays[ORC_VAR_S1] = s1; ex.arrays[ORC_VAR_S2] = s2;
        orc_executor_run (&ex);
        orc_program_free (p);
        break;
      }
      case 'x': p = hprog (2); orc_program_compile_for_target (p, orc_target_get_by_name ("mmx")); orc_program_free (p); break;
      case 'z': p = hprog (3); orc_program_compile (p); orc_program_free (p); break;
      case 'n': p = hprog (1); orc_program_compile_for_target (p, orc_target_get_by_name ("neon")); orc_program_free (p); break;
      case 'h': poison_heap (); break;
      case 'k': {
        /* every opcode with a scalar operand compiled for every registered target with the special operand values
         * (0, 1 less than the element width in bits, the width itself): the values back ends have separate paths for */
        int oi, t, vi;
        for (t = NT - 1; t >= 0; t--) for (oi = 0; oi < v_nops; oi++) for (vi = 0; vi < 3; vi++) {
          const OrcStaticOpcode *o = &v_ops[oi];
          int d1, s1, c1;
          if (!targets[t] || !(o->flags & ORC_STATIC_OPCODE_SCALAR) || op_nsrc (o) != 2 || o->dest_size[1]) continue;
          p = orc_program_new ();
          orc_program_set_name (p, "hist_scalar");
          d1 = orc_program_add_destination (p, o->dest_size[0], "d1");
          s1 = orc_program_add_source (p, o->src_size[0], "s1");
          c1 = orc_program_add_constant (p, o->src_size[1], vi == 0 ? 0 : vi == 1 ? 8 * o->src_size[0] - 1 : 8 * o->src_size[0], "c1");
          orc_program_append_2 (p, o->name, 0, d1, s1, c1, -1);
          orc_program_compile_for_target (p, targets[t]);
          orc_program_free (p);
        }
        break;
      }
      case 'g': case 'd': {
        /* every opcode of the sys set compiled once for the three x86 back ends: g under the smallest flag set of the
         * target, d under its default flags; freed at once */
        int oi, t;
        /* target by target, the target the probes compile for first last: whatever a compile leaves behind per
         * (target, opcode) is then still there when the probe asks for the same pair under other flags */
        for (t = 2; t >= 0; t--) for (oi = 0; oi < v_nops; oi++) {
          const OrcStaticOpcode *o = &v_ops[oi];
          int a[5], na = 0, k, nsrc = op_nsrc (o);
          if (!targets[t]) continue;
          p = orc_program_new ();
          orc_program_set_name (p, "hist_all");
          if (o->flags & ORC_STATIC_OPCODE_ACCUMULATOR) a[na++] = orc_program_add_accumulator (p, o->dest_size[0], "a1");
          else a[na++] = orc_program_add_destination (p, o->dest_size[0], "d1");
          if (o->dest_size[1]) a[na++] = orc_program_add_destination (p, o->dest_size[1], "d2");
          for (k = 0; k < nsrc; k++) {
            char nm[8];
            sprintf (nm, "x%d", k);
            a[na++] = (k > 0 && (o->flags & ORC_STATIC_OPCODE_SCALAR)) ? orc_program_add_constant (p, o->src_size[k], 1, nm) : orc_program_add_source (p, o->src_size[k], nm);
          }
          orc_program_append_2 (p, o->name, 0, a[0], a[1], na > 2 ? a[2] : -1, na > 3 ? a[3] : -1);
          if (*h == 'g') orc_program_compile_full (p, targets[t], min_flags (t));
          else orc_program_compile_for_target (p, targets[t]);
          orc_program_free (p);
        }
        break;
      }
    }
  }
}

int main (int argc, char **argv)
{
  const char *levels = v_arg (argc, argv, "--levels", "L1"), *corpus = v_arg (argc, argv, "--corpus", NULL);
  const char *outfn = v_arg (argc, argv, "--out", NULL);
  int t, reverse = v_flag (argc, argv, "--reverse");
  hist = v_arg (argc, argv, "--history", "");
  stride = v_argi (argc, argv, "--stride", 1);
  offset_ = v_argi (argc, argv, "--offset", 0);
  poison = v_flag (argc, argv, "--poison");
  probe_min = v_flag (argc, argv, "--probe-min");
  out = outfn ? fopen (outfn, "w") : stdout;
  if (!out) return 2;
  orc_init ();
  v_ops_init ();
  v_install_handlers ();
  for (t = 0; t < NT; t++) targets[t] = orc_target_get_by_name (tnames[t]);
  apply_history (hist);
  (void) reverse;
  if (strstr (levels, "L4") && corpus) {
    char buf[2048], *fn, *save;
    strncpy (buf, corpus, sizeof (buf) - 1); buf[sizeof (buf) - 1] = 0;
    for (fn = strtok_r (buf, ":", &save); fn; fn = strtok_r (NULL, ":", &save)) {
      FILE *f = fopen (fn, "rb");
      static char code[1 << 20];
      size_t n;
      OrcProgram **progs = NULL;
      int np, i;
      if (!f) continue;
      n = fread (code, 1, sizeof (code) - 1, f); code[n] = 0; fclose (f);
      np = orc_parse (code, &progs);
      for (i = 0; i < np; i++) { long idx = g_idx++; if ((idx % stride) == offset_) probe (progs[i], idx); }
    }
  }
  if (strstr (levels, "L1")) pgen_L1 (on_prog, NULL, PG_INT | PG_FLOAT);
  if (strstr (levels, "L3")) pgen_L3 (on_prog, NULL, PG_INT);
  if (strstr (levels, "L5")) pgen_L5 (on_prog, NULL);
  fprintf (out, "E %ld %ld\n", g_idx, n_inproc_viol);
  fclose (out);
  return 0;
}
