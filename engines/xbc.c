/* xbc: bytecode round trip (C13) over the enumerated program spaces plus
 * boundary encodings.  For every program P: b = encode(P); Q = decode(b);
 * P and Q must be structurally equal, encode(Q) == b byte for byte, and P and
 * Q must emulate identically.  ASan + bounds build. */
#include "pgen.h"
#include "vrun.h"
#include <orc/orcbytecode.h>

static int shard, nshards;
static long g_idx, g_start;
static long st_programs, st_bytes, st_viol, st_emul;
static int nsamples;
static char *seen[300];
static int nseen;

static void viol (const char *cls, const char *sig, const char *msg, const char *text)
{
  char key[400];
  int i;
  st_viol++;
  snprintf (key, sizeof (key), "C13|%s|%s", cls, sig);
  for (i = 0; i < nseen; i++) if (!strcmp (seen[i], key)) return;
  if (nseen < 300) seen[nseen++] = strdup (key);
  v_out ("{\"t\":\"viol\",\"key\":\"%s\",\"what\":\"%s; program: %s\",\"replay\":{\"program\":\"%s\"}}", v_esc (key), v_esc (msg), v_esc (text), v_esc (text));
}

static uint64_t mask_size (uint64_t v, int size) { return size >= 8 ? v : (v & ((1ULL << (size * 8)) - 1)); }

static const char *sig_of (OrcProgram * p)
{
  static char buf[300];
  size_t o = 0;
  int i;
  buf[0] = 0;
  for (i = 0; i < p->n_insns && i < 4 && o < sizeof (buf) - 40; i++)
    o += snprintf (buf + o, sizeof (buf) - o, "%s%s%s", i ? "," : "", (p->insns[i].flags & 1) ? "x2." : (p->insns[i].flags & 2) ? "x4." : "", p->insns[i].opcode->name);
  if (p->n_insns > 4) o += snprintf (buf + o, sizeof (buf) - o, ",+%d", p->n_insns - 4);
  return buf;
}

static int emulate_equal (OrcProgram * p, OrcProgram * q, char *msg, size_t cap)
{
  VRunCfg c;
  VArena A, B;
  OrcExecutor ea, eb;
  int rc, k;
  OrcCompileResult ra, rb;
  ra = orc_program_compile_for_target (p, NULL);
  rb = orc_program_compile_for_target (q, NULL);
  if (ORC_COMPILE_RESULT_IS_FATAL (ra) != ORC_COMPILE_RESULT_IS_FATAL (rb)) { snprintf (msg, cap, "compile results differ: 0x%x vs 0x%x", ra, rb); return 1; }
  if (ORC_COMPILE_RESULT_IS_FATAL (ra) || !p->orccode || !q->orccode) return 0;
  for (k = 0; k < 2; k++) {
    memset (&c, 0, sizeof (c));
    c.n = p->constant_n > 0 ? (p->constant_n < 4000 ? p->constant_n : 4000) : (k ? 19 : 70);
    c.m = p->is_2d ? (p->constant_m > 0 ? (p->constant_m < 50 ? p->constant_m : 50) : 2) : 1;
    c.pchoice = k;
    c.vbase = k * 5;
    vr_arena_alloc (&A, p, &c); vr_arena_fill (&A, &c); vr_exec_setup (&ea, p, &A, &c);
    vr_arena_alloc (&B, q, &c); vr_arena_fill (&B, &c); vr_exec_setup (&eb, q, &B, &c);
    /* same parameter values for both (param domains are inferred from uses, which are equal if the round trip is right;
     * copy P's to be independent of that) */
    memcpy (eb.params + ORC_VAR_P1, ea.params + ORC_VAR_P1, sizeof (int) * (ORC_VAR_T16 + 1 - ORC_VAR_P1));
    orc_executor_emulate (&ea);
    orc_executor_emulate (&eb);
    st_emul++;
    rc = vr_compare (&B, &A, &c, &eb, &ea, msg, cap);
    vr_arena_free (&A);
    vr_arena_free (&B);
    if (rc) return 1;
  }
  return 0;
}

static void check_program (OrcProgram * p, const char *text, long idx)
{
  OrcBytecode *b, *b2;
  OrcProgram *q;
  char msg[500];
  const char *sig = sig_of (p);
  int i, k;
  char key[360];
  snprintf (key, sizeof (key), "C13|crash|%s", sig);
  v_case (idx, key, text);
  st_programs++;
  b = orc_bytecode_from_program (p);
  st_bytes += b->length;
  q = orc_program_new_from_static_bytecode (b->bytecode);
  if (!q) { viol ("decode", sig, "decoder returned NULL", text); orc_bytecode_free (b); return; }
  /* ---- structural equality ---- */
#define CHK(cond, ...) do { if (!(cond)) { snprintf (msg, sizeof (msg), __VA_ARGS__); viol ("structure", sig, msg, text); goto reencode; } } while (0)
  CHK (p->n_insns == q->n_insns, "instruction count %d -> %d", p->n_insns, q->n_insns);
  CHK (p->is_2d == q->is_2d, "2-D flag %d -> %d", p->is_2d, q->is_2d);
  CHK (p->constant_n == q->constant_n, "constant n %d -> %d", p->constant_n, q->constant_n);
  CHK (!p->is_2d || p->constant_m == q->constant_m, "constant m %d -> %d", p->constant_m, q->constant_m);
  CHK (p->n_multiple == q->n_multiple && p->n_minimum == q->n_minimum && p->n_maximum == q->n_maximum, "n multiple/min/max %d/%d/%d -> %d/%d/%d",
      p->n_multiple, p->n_minimum, p->n_maximum, q->n_multiple, q->n_minimum, q->n_maximum);
  CHK ((p->name == NULL) == (q->name == NULL) && (!p->name || !strcmp (p->name, q->name)), "name '%.40s' -> '%.40s'", p->name ? p->name : "(null)", q->name ? q->name : "(null)");
  for (i = 0; i < ORC_N_VARIABLES; i++) {
    OrcVariable *a = &p->vars[i], *c = &q->vars[i];
    CHK (a->size == c->size, "variable %d size %d -> %d", i, a->size, c->size);
    if (!a->size) continue;
    CHK (a->vartype == c->vartype, "variable %d class %d -> %d", i, a->vartype, c->vartype);
    if (a->vartype == ORC_VAR_TYPE_SRC || a->vartype == ORC_VAR_TYPE_DEST)
      CHK ((a->alignment ? a->alignment : a->size) == (c->alignment ? c->alignment : c->size), "variable %d alignment %d -> %d", i, a->alignment, c->alignment);
    if (a->vartype == ORC_VAR_TYPE_CONST)
      CHK (mask_size (a->value.i, a->size) == mask_size (c->value.i, c->size), "constant %d value 0x%llx -> 0x%llx (size %d)", i,
          (unsigned long long) a->value.i, (unsigned long long) c->value.i, a->size);
    if (a->vartype == ORC_VAR_TYPE_PARAM)
      CHK (a->param_type == c->param_type, "parameter %d class %d -> %d", i, a->param_type, c->param_type);
  }
  for (i = 0; i < p->n_insns; i++) {
    OrcInstruction *a = &p->insns[i], *c = &q->insns[i];
    CHK (a->opcode == c->opcode, "instruction %d opcode %s -> %s", i, a->opcode->name, c->opcode ? c->opcode->name : "?");
    CHK ((a->flags & 3) == (c->flags & 3), "instruction %d flags %u -> %u", i, a->flags, c->flags);
    for (k = 0; k < 2; k++) if (a->opcode->dest_size[k]) CHK (a->dest_args[k] == c->dest_args[k], "instruction %d dest %d: var %d -> %d", i, k, a->dest_args[k], c->dest_args[k]);
    for (k = 0; k < 4; k++) if (a->opcode->src_size[k] && k < 3) CHK (a->src_args[k] == c->src_args[k], "instruction %d src %d: var %d -> %d", i, k, a->src_args[k], c->src_args[k]);
  }
reencode:
  b2 = orc_bytecode_from_program (q);
  if (b2->length != b->length || memcmp (b2->bytecode, b->bytecode, b->length)) {
    int d = 0;
    while (d < b->length && d < b2->length && b->bytecode[d] == b2->bytecode[d]) d++;
    snprintf (msg, sizeof (msg), "re-encoding differs: %d vs %d bytes, first difference at offset %d", b->length, b2->length, d);
    viol ("reencode", sig, msg, text);
  }
  orc_bytecode_free (b2);
  if (emulate_equal (p, q, msg, sizeof (msg))) viol ("behaviour", sig, msg, text);
  if (nsamples < 3 && (idx % 2501) == 3) {
    nsamples++;
    v_out ("{\"t\":\"sample\",\"program\":\"%s\",\"bytecode_length\":%d}", v_esc (text), b->length);
  }
  orc_bytecode_free (b);
  orc_program_free (q);
}

static void on_prog (VProg * vp, void *user)
{
  long idx = g_idx++;
  char text[8192];
  OrcProgram *p;
  (void) user;
  if (idx < g_start || (idx % nshards) != shard) return;
  vprog_text (vp, text, sizeof (text));
  p = vprog_build (vp);
  check_program (p, text, idx);
  orc_program_free (p);
}

/* boundary encodings */
static void boundary (void)
{
  static const int lens[] = { 1, 2, 253, 254, 255, 256, 257, 1000, 65534 };
  static const int aligns[] = { 1, 2, 4, 8, 16, 32, 64, 128 };
  int i, j, sz;
  /* every boundary constant of every size through a 1-instruction program */
  for (sz = 1; sz <= 8; sz *= 2) {
    int nb = (int) v_alphabet_size (sz, 0);
    static const char *cp[] = { "", "copyb", "copyw", "", "copyl", "", "", "", "copyq" };
    for (i = 0; i < nb; i++) {
      VProg p;
      int d, c;
      memset (&p, 0, sizeof (p));
      d = vprog_addvar (&p, VK_D, sz);
      c = vprog_addvar (&p, VK_C, sz);
      p.v[c].cval = sz == 8 ? (int64_t) v_value (sz, 0, 0, i) : (int64_t) (int32_t) (uint32_t) v_value (sz, 0, 0, i);
      if (sz < 4) p.v[c].cval = (int64_t) v_value (sz, 0, 0, i);
      vprog_addinsn (&p, cp[sz], 0, 2, d, c, -1, -1);
      snprintf (p.name, sizeof (p.name), "bconst%d_%d", sz, i);
      on_prog (&p, NULL);
    }
    if (sz >= 4) {
      int nf = (int) v_alphabet_size (sz, 1);
      for (i = 0; i < nf; i++) {
        VProg p;
        int d, c;
        memset (&p, 0, sizeof (p));
        d = vprog_addvar (&p, VK_D, sz);
        c = vprog_addvar (&p, VK_C, sz);
        p.v[c].cval = sz == 8 ? (int64_t) VF64[i] : (int64_t) (int32_t) VF32[i];
        vprog_addinsn (&p, cp[sz], 0, 2, d, c, -1, -1);
        snprintf (p.name, sizeof (p.name), "bfconst%d_%d", sz, i);
        on_prog (&p, NULL);
      }
    }
  }
  /* constant n / m / n_multiple / min / max and name lengths at the encoding boundaries */
  for (i = 0; i < 9; i++) for (j = 0; j < 6; j++) {
    long idx = g_idx++;
    OrcProgram *p;
    char text[128];
    if (idx < g_start || (idx % nshards) != shard) continue;
    p = orc_program_new_dss (1, 1, 1);
    orc_program_append_str (p, "addb", "d1", "s1", "s2");
    switch (j) {
      case 0: orc_program_set_constant_n (p, lens[i]); break;
      case 1: orc_program_set_2d (p); orc_program_set_constant_m (p, lens[i]); break;
      case 2: orc_program_set_n_multiple (p, lens[i]); break;
      case 3: orc_program_set_n_minimum (p, lens[i]); break;
      case 4: orc_program_set_n_maximum (p, lens[i]); break;
      case 5: {
        char *nm = malloc (lens[i] + 1);
        int k;
        for (k = 0; k < lens[i]; k++) nm[k] = 'a' + k % 26;
        nm[lens[i]] = 0;
        orc_program_set_name (p, nm);
        free (nm);
        break;
      }
    }
    if (j != 5) orc_program_set_name (p, "bfield");
    snprintf (text, sizeof (text), "boundary field %d = %d (addb d1,s1,s2)", j, lens[i]);
    check_program (p, text, idx);
    orc_program_free (p);
  }
  /* declared alignments */
  for (i = 0; i < 8; i++) for (sz = 1; sz <= 8; sz *= 2) {
    VProg p;
    int d, s;
    static const char *cp[] = { "", "copyb", "copyw", "", "copyl", "", "", "", "copyq" };
    /* alignments below the element size are legal declarations too ("align 1": the array may start anywhere) */
    memset (&p, 0, sizeof (p));
    d = vprog_addvar (&p, VK_D, sz); p.v[d].align = aligns[i];
    s = vprog_addvar (&p, VK_S, sz); p.v[s].align = aligns[i] > 1 ? aligns[i] / 2 : aligns[i];
    vprog_addinsn (&p, cp[sz], 0, 2, d, s, -1, -1);
    snprintf (p.name, sizeof (p.name), "balign%d_%d", sz, aligns[i]);
    on_prog (&p, NULL);
    /* the same program built the other two ways a declared alignment can get into a program */
    {
      long idx = g_idx++;
      if (!(idx < g_start || (idx % nshards) != shard)) {
        OrcProgram *q = orc_program_new ();
        char text[200];
        int dv, sv;
        orc_program_set_name (q, p.name);
        dv = orc_program_add_destination (q, sz, "d1");
        sv = orc_program_add_source (q, sz, "s1");
        orc_program_set_var_alignment (q, dv, p.v[d].align);
        orc_program_set_var_alignment (q, sv, p.v[s].align);
        orc_program_append_2 (q, cp[sz], 0, dv, sv, -1, -1);
        snprintf (text, sizeof (text), "%s built with set_var_alignment (dest %d, source %d)", p.name, p.v[d].align, p.v[s].align);
        check_program (q, text, idx);
        orc_program_free (q);
      }
    }
    {
      long idx = g_idx++;
      if (!(idx < g_start || (idx % nshards) != shard)) {
        char text[300];
        OrcProgram **progs = NULL;
        int np;
        snprintf (text, sizeof (text), ".function %s\n.dest %d d1 align %d\n.source %d s1 align %d\n%s d1, s1\n", p.name, sz, p.v[d].align, sz, p.v[s].align, cp[sz]);
        np = orc_parse (text, &progs);
        if (np == 1 && progs[0]) {
          if (progs[0]->vars[ORC_VAR_D1].alignment != p.v[d].align) viol ("structure", "parsed-alignment", "parser did not keep the declared alignment", text);
          check_program (progs[0], text, idx);
          orc_program_free (progs[0]);
        } else viol ("structure", "parsed-alignment", "alignment program does not parse", text);
        free (progs);
      }
    }
  }
  /* all eight constant slots taken, the 64-bit constant in slot k = 1..8 (the others 32-bit), declared in text */
  for (i = 0; i < 8; i++) {
    long idx = g_idx++;
    char text[1200];
    size_t o = 0;
    OrcProgram **progs = NULL;
    int np, k;
    if (idx < g_start || (idx % nshards) != shard) continue;
    o += snprintf (text + o, sizeof (text) - o, ".function bconst8_%d\n.dest 4 d1\n.source 4 s1\n.dest 8 d2\n.source 8 s2\n.temp 4 t1\n", i + 1);
    for (k = 0; k < 8; k++) {
      if (k == i) o += snprintf (text + o, sizeof (text) - o, ".const 8 c%d 0x0123456789abcdefL\n", k + 1);
      else o += snprintf (text + o, sizeof (text) - o, ".const 4 c%d %d\n", k + 1, 1000003 * (k + 1));
    }
    o += snprintf (text + o, sizeof (text) - o, "copyl t1, s1\n");
    for (k = 0; k < 8; k++) {
      if (k == i) o += snprintf (text + o, sizeof (text) - o, "addq d2, s2, c%d\n", k + 1);
      else o += snprintf (text + o, sizeof (text) - o, "addl t1, t1, c%d\n", k + 1);
    }
    o += snprintf (text + o, sizeof (text) - o, "copyl d1, t1\n");
    np = orc_parse (text, &progs);
    if (np == 1 && progs[0]) { check_program (progs[0], text, idx); orc_program_free (progs[0]); }
    else viol ("structure", "eight-constants", "program with eight constants does not parse", text);
    free (progs);
  }
  /* every variable slot used; every parameter class; 1, 99 and 100 instructions */
  {
    static const int counts[] = { 1, 50, 99, 100 };
    for (i = 0; i < 4; i++) {
      long idx = g_idx++;
      OrcProgram *p;
      char text[128], nm[16];
      int k;
      if (idx < g_start || (idx % nshards) != shard) continue;
      p = orc_program_new ();
      orc_program_set_name (p, "bslots");
      for (k = 0; k < 4; k++) { sprintf (nm, "d%d", k + 1); orc_program_add_destination (p, 2, nm); }
      for (k = 0; k < 8; k++) { sprintf (nm, "s%d", k + 1); orc_program_add_source (p, 2, nm); }
      for (k = 0; k < 4; k++) { sprintf (nm, "a%d", k + 1); orc_program_add_accumulator (p, 2, nm); }
      for (k = 0; k < 8; k++) { sprintf (nm, "c%d", k + 1); orc_program_add_constant (p, 2, k * 1000 - 3000, nm); }
      orc_program_add_parameter (p, 2, "p1");
      orc_program_add_parameter_float (p, 4, "p2");
      orc_program_add_parameter_int64 (p, 8, "p3");
      orc_program_add_parameter_double (p, 8, "p4");
      for (k = 4; k < 8; k++) { sprintf (nm, "p%d", k + 1); orc_program_add_parameter (p, 2, nm); }
      for (k = 0; k < 16; k++) { sprintf (nm, "t%d", k + 1); orc_program_add_temporary (p, 2, nm); }
      orc_program_append_str (p, "addw", "t1", "s1", "s2");
      for (k = 1; k < counts[i] - 1; k++) {
        char a[8], b2[8];
        sprintf (a, "t%d", (k % 16) + 1);
        sprintf (b2, "c%d", (k % 8) + 1);
        orc_program_append_str (p, "addw", "t1", "t1", k % 3 == 0 ? "p1" : k % 3 == 1 ? b2 : "s3");
        (void) a;
      }
      if (counts[i] > 1) orc_program_append_str (p, "addw", "d1", "t1", "s4");
      snprintf (text, sizeof (text), "all variable slots, %d instructions", counts[i]);
      check_program (p, text, idx);
      orc_program_free (p);
    }
  }
}

static const char *g_levels, *g_corpus;

static void worker (long start, void *user)
{
  (void) user;
  g_idx = 0;
  g_start = start;
  orc_init ();
  v_ops_init ();
  boundary ();
  if (strstr (g_levels, "L1")) pgen_L1 (on_prog, NULL, PG_INT | PG_FLOAT);
  if (strstr (g_levels, "L2")) pgen_L2 (on_prog, NULL, PG_INT | PG_FLOAT);
  if (strstr (g_levels, "L3")) { pgen_L3 (on_prog, NULL, PG_INT); pgen_L3 (on_prog, NULL, PG_FLOAT); }
  if (strstr (g_levels, "L5")) pgen_L5 (on_prog, NULL);
  if (strstr (g_levels, "L4") && g_corpus) {
    char buf[2048], *fn, *save;
    strncpy (buf, g_corpus, sizeof (buf) - 1);
    buf[sizeof (buf) - 1] = 0;
    for (fn = strtok_r (buf, ":", &save); fn; fn = strtok_r (NULL, ":", &save)) {
      FILE *f = fopen (fn, "rb");
      static char code[1 << 20];
      size_t n;
      OrcProgram **progs = NULL;
      int np, i;
      if (!f) continue;
      n = fread (code, 1, sizeof (code) - 1, f);
      code[n] = 0;
      fclose (f);
      np = orc_parse (code, &progs);
      for (i = 0; i < np; i++) {
        long idx = g_idx++;
        if (idx >= g_start && (idx % nshards) == shard) check_program (progs[i], oprog_oneline (progs[i]), idx);
      }
    }
  }
  v_out ("{\"t\":\"stat\",\"programs\":%ld,\"bytecode_bytes\":%ld,\"emulation_comparisons\":%ld,\"violations_raw\":%ld}", st_programs, st_bytes, st_emul, st_viol);
  v_out ("{\"t\":\"max\",\"space_size\":%ld}", g_idx);
}

int main (int argc, char **argv)
{
  shard = v_argi (argc, argv, "--shard", 0);
  nshards = v_argi (argc, argv, "--nshards", 1);
  g_levels = v_arg (argc, argv, "--levels", "L1");
  g_corpus = v_arg (argc, argv, "--corpus", NULL);
  v_supervise (worker, NULL, "C13");
  return 0;
}
