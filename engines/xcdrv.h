/* Call record shared by the generated thunks (xcgen) and the driver (xcdrv). */
#ifndef XCDRV_H
#define XCDRV_H
typedef struct {
  void *arr[12];		/* D1..D4, S1..S8 by orc variable index */
  int stride[12];
  void *acc[4];
  long long pint[8];
  float pflt[8];
  double pdbl[8];
  int n, m;
} VCall;
typedef struct { const char *name; void (*fn) (VCall *); } VCallEntry;
extern const VCallEntry v_calls[];
#endif
