/* xdump: emulator results of one opcode over a small complete operand table,
 * as text "a b result" (unsigned hex), for the documented-pseudo-code check. */
#include "pgen.h"
static uint64_t getv (const unsigned char *p, int sz) { uint64_t v = 0; memcpy (&v, p, sz); return v; }
int main (int argc, char **argv)
{
  int oi;
  orc_init (); v_ops_init ();
  for (oi = 0; oi < v_nops; oi++) {
    const OrcStaticOpcode *o = &v_ops[oi];
    int nsrc = op_nsrc (o), ss0 = o->src_size[0], ss1 = o->src_size[1], ds = o->dest_size[0], scalar = (o->flags & ORC_STATIC_OPCODE_SCALAR) != 0;
    long na, nb = 1, ia, ib;
    if (argc > 1 && strcmp (argv[1], o->name)) continue;
    if (op_is_float (o) || o->dest_size[1] || (o->flags & (ORC_STATIC_OPCODE_LOAD | ORC_STATIC_OPCODE_STORE | ORC_STATIC_OPCODE_ACCUMULATOR))) continue;
    na = ss0 == 1 ? 256 : ss0 == 2 ? VNB16 : ss0 == 4 ? VNB32 : VNB64;
    if (nsrc > 1) nb = scalar ? ss0 * 8 : ss1 == 1 ? 256 : ss1 == 2 ? VNB16 : ss1 == 4 ? VNB32 : VNB64;
    for (ib = 0; ib < nb; ib++) {
      uint64_t b = nsrc > 1 ? (scalar ? (uint64_t) ib : ss1 == 1 ? (uint64_t) ib : ss1 == 2 ? VB16[ib] : ss1 == 4 ? VB32[ib] : VB64[ib]) : 0;
      unsigned char *S1 = calloc (na + 16, ss0), *D = calloc (na + 16, ds);
      OrcProgram *p = orc_program_new ();
      OrcExecutor ex;
      int d = orc_program_add_destination (p, ds, "d1"), s1 = orc_program_add_source (p, ss0, "s1"), s2 = -1;
      for (ia = 0; ia < na; ia++) { uint64_t a = ss0 == 1 ? (uint64_t) ia : ss0 == 2 ? VB16[ia] : ss0 == 4 ? VB32[ia] : VB64[ia]; memcpy (S1 + ia * ss0, &a, ss0); }
      if (nsrc > 1) s2 = ss1 == 8 ? orc_program_add_constant_int64 (p, 8, (orc_int64) b, "c1") : orc_program_add_constant (p, ss1, (int) (int32_t) b, "c1");
      orc_program_append_2 (p, o->name, 0, d, s1, s2, -1);
      orc_program_compile_for_target (p, NULL);
      memset (&ex, 0, sizeof (ex));
      orc_executor_set_program (&ex, p);
      ex.n = (int) na; ex.arrays[ORC_VAR_D1] = D; ex.arrays[ORC_VAR_S1] = S1;
      orc_executor_emulate (&ex);
      for (ia = 0; ia < na; ia++) printf ("%s %llx %llx %llx\n", o->name, (unsigned long long) getv (S1 + ia * ss0, ss0), (unsigned long long) (b & (ss1 >= 8 ? ~0ULL : ((1ULL << (ss1 * 8)) - 1))), (unsigned long long) getv (D + ia * ds, ds));
      orc_program_free (p); free (S1); free (D);
    }
  }
  return 0;
}
