/* xprog: S-prog x S-in explorer.  Enumerates a program space, compiles every
 * program for each executable x86 target and compares native execution with
 * emulation over a completely enumerated input space (n, alignment, 2-D
 * shapes, value tables).  Used by C01 (and, with other modes, C11's result
 * obligation and C18's JIT-vs-emulation leg). */
#include "pgen.h"
#include "vrun.h"
#include <fenv.h>

typedef struct {
  int shard, nshards;
  int thorough;
  const char *levels;
  const char *targets;
  int classes;
  const char *corpus;		/* colon separated .orc files */
  unsigned flagmask_mode;	/* 0 default flags */
  const char *only;		/* replay: only this program name */
  const char *prop;		/* key prefix */
  int featsets;			/* expand each target into every subset of its feature bits (C11) */
  int lite;			/* reduced input sweep per (program, flag vector) */
  int rounding;			/* float programs also under the caller's non-default rounding directions (C18) */
  long only_flags;
} Opt;

static Opt opt;
static VTarget targets[160];
static char tlabel[160][24];
static int ntargets;

static long st_programs, st_compiled, st_runs, st_nocompile, st_elems, st_pt, st_viol;
static long st_progs_native, st_samecode;
static int nsamples;

#define MAXKEYS 512
static char *seen_keys[MAXKEYS];
static int nseen;

static int key_seen (const char *k)
{
  int i;
  for (i = 0; i < nseen; i++) if (!strcmp (seen_keys[i], k)) return 1;
  if (nseen < MAXKEYS) seen_keys[nseen++] = strdup (k);
  return 0;
}

static const char *opsig (OrcProgram * p)
{
  static char buf[600];
  size_t o = 0;
  int i;
  buf[0] = 0;
  for (i = 0; i < p->n_insns && o < sizeof (buf) - 40; i++) {
    OrcInstruction *in = &p->insns[i];
    o += snprintf (buf + o, sizeof (buf) - o, "%s%s%s", i ? "," : "", (in->flags & 1) ? "x2." : (in->flags & 2) ? "x4." : "", in->opcode->name);
  }
  return buf;
}

static const char *kinds_sig (OrcProgram * p)
{
  /* operand kinds of the first instruction (enough to tell L1 forms apart) */
  static char buf[64];
  size_t o = 0;
  int k;
  OrcInstruction *in = &p->insns[0];
  static const char kc[] = "TSDCPA";
  buf[0] = 0;
  if (p->n_insns < 1) return buf;
  for (k = 0; k < 2; k++) if (in->opcode->dest_size[k]) buf[o++] = kc[p->vars[in->dest_args[k]].vartype];
  buf[o++] = '<';
  for (k = 0; k < 4; k++) if (in->opcode->src_size[k]) buf[o++] = kc[p->vars[in->src_args[k]].vartype];
  if (p->is_2d) { buf[o++] = '/'; buf[o++] = '2'; buf[o++] = 'd'; }
  buf[o] = 0;
  return buf;
}

static const char *tlab (const VTarget * t)
{
  return opt.featsets ? tlabel[t - targets] : t->name;
}

static void report (OrcProgram * p, const VTarget * t, const char *kind, const VRunCfg * c, const char *msg, const char *text)
{
  char key[900];
  snprintf (key, sizeof (key), "%s|%s|%s|%s|%s", opt.prop, tlab (t), opsig (p), kinds_sig (p), kind);
  st_viol++;
  if (key_seen (key)) return;
  v_out ("{\"t\":\"viol\",\"key\":\"%s\",\"what\":\"%s: %s; n=%d m=%d off=[%d,%d,%d,%d|%d,%d,%d,%d] stride_extra=%d flip=0x%x pchoice=%d vbase=%llu; program: %s\","
      "\"replay\":{\"program\":\"%s\",\"target\":\"%s\",\"flags\":%u,\"n\":%d,\"m\":%d,\"off\":[%d,%d,%d,%d,%d,%d,%d,%d,%d,%d,%d,%d],\"stride_extra\":%d,\"pchoice\":%d,\"vbase\":%llu}}",
      v_esc (key), tlab (t), v_esc (msg), c->n, c->m, c->off[0], c->off[1], c->off[2], c->off[3], c->off[4], c->off[5], c->off[6], c->off[7],
      c->stride_extra, c->flip, c->pchoice, (unsigned long long) c->vbase, v_esc (oprog_oneline (p)),
      v_esc (text ? text : oprog_oneline (p)), t->name, t->flags, c->n, c->m,
      c->off[0], c->off[1], c->off[2], c->off[3], c->off[4], c->off[5], c->off[6], c->off[7], c->off[8], c->off[9], c->off[10], c->off[11],
      c->stride_extra, c->pchoice, (unsigned long long) c->vbase);
}

/* one comparison: JIT on arena X (offsets) against emulation on arena R */
static int one_run (OrcProgram * p, const VTarget * t, const VRunCfg * c, VArena * R, OrcExecutor * exr, const char *text)
{
  VArena X;
  OrcExecutor ex;
  char msg[400];
  int sig, rc;
  vr_arena_alloc (&X, p, c);
  vr_arena_fill (&X, c);
  vr_exec_setup (&ex, p, &X, c);
  V_CONFINED (orc_executor_run (&ex), sig);
  st_runs++;
  st_elems += (long) c->n * (c->m > 0 ? c->m : 0);
  if (sig) {
    snprintf (msg, sizeof (msg), "native code raised signal %d (fault address %p)", sig, v_sigaddr);
    report (p, t, "crash", c, msg, text);
    vr_arena_free (&X);
    return 1;
  }
  rc = vr_compare (&X, R, c, &ex, exr, msg, sizeof (msg));
  if (rc) report (p, t, rc == 1 ? "mismatch" : rc == 2 ? "oob" : "acc", c, msg, text);
  vr_arena_free (&X);
  return rc;
}

static void ref_run (OrcProgram * p, const VRunCfg * c0, VArena * R, OrcExecutor * exr)
{
  VRunCfg c = *c0;
  memset (c.off, 0, sizeof (c.off));
  vr_arena_alloc (R, p, &c);
  vr_arena_fill (R, &c);
  vr_exec_setup (exr, p, R, &c);
  orc_executor_emulate (exr);
}

static int min_var_size (OrcProgram * p)
{
  int i, s = 8;
  for (i = 0; i < ORC_N_VARIABLES; i++) if (p->vars[i].size && p->vars[i].size < s && p->vars[i].vartype != ORC_VAR_TYPE_CONST && p->vars[i].vartype != ORC_VAR_TYPE_PARAM) s = p->vars[i].size;
  return s;
}

static int program_has_float (OrcProgram * p)
{
  int i;
  for (i = 0; i < p->n_insns; i++) if (op_is_float (p->insns[i].opcode)) return 1;
  return 0;
}

static int declared_align (OrcProgram * p, int var)
{
  int a = p->vars[var].alignment;
  return a > 0 ? a : p->vars[var].size;
}

static void set_offsets (OrcProgram * p, VRunCfg * c, int lead_off, int variant)
{
  /* lead array gets lead_off; others follow a co-prime progression, all
   * honouring element size and declared alignment */
  int i, k = 0, lead = -1;
  for (i = 0; i < VR_NARR; i++) {
    OrcVariable *v = &p->vars[i];
    int al;
    if (!v->size || !v->name || (v->vartype != ORC_VAR_TYPE_DEST && v->vartype != ORC_VAR_TYPE_SRC)) { c->off[i] = 0; continue; }
    al = declared_align (p, i);
    if (lead < 0) { lead = i; c->off[i] = (lead_off / al) * al % 64; continue; }
    k++;
    c->off[i] = (((lead_off / v->size) * (2 * k + 1 + variant) + 5 * k + variant * 3) * v->size) % 64;
    c->off[i] = c->off[i] / al * al;
    if (al < v->size) c->off[i] = (c->off[i] + 2 * k + 1 + variant) % 64;	/* declared below the element size: any byte offset */
  }
}

static void explore_program (OrcProgram * p, const char *text, long pidx)
{
  int ti, any = 0;
  uint64_t codeh[160];
  int ncodeh = 0;
  st_programs++;
  for (ti = 0; ti < ntargets; ti++) {
    const VTarget *t = &targets[ti];
    OrcCompileResult res;
    int regsize = !strcmp (t->name, "avx") ? 32 : !strcmp (t->name, "sse") ? 16 : 8;
    int V, N, n, lo, sz, bad = 0;
    VRunCfg c;
    VArena R;
    OrcExecutor exr;
    char key[700];

    snprintf (key, sizeof (key), "%s|%s|%s|%s", opt.prop, tlab (t), opsig (p), kinds_sig (p));
    v_case (pidx, key, text ? text : oprog_oneline (p));
    v_watchdog (120);
    orc_program_reset (p);	/* a failed compile for one target leaves its error on the program until reset */
    res = orc_program_compile_full (p, t->target, t->flags);
    if (!ORC_COMPILE_RESULT_IS_SUCCESSFUL (res)) { st_nocompile++; continue; }
    st_compiled++;
    any = 1;
    if (opt.featsets && p->orccode) {
      /* identical machine code under another flag vector has identical results */
      uint64_t h = v_hash64 (p->orccode->code, p->orccode->code_size, (uint64_t) (size_t) t->target);
      int d, dup = 0;
      for (d = 0; d < ncodeh; d++) if (codeh[d] == h) dup = 1;
      if (dup) { st_samecode++; continue; }
      if (ncodeh < 160) codeh[ncodeh++] = h;
    }
    sz = min_var_size (p);
    V = regsize / sz;
    N = (opt.thorough ? 4 : 2) * V * 2 + 3;
    if (p->constant_n > 0) N = p->constant_n;

    /* 1. n sweep x lead-array alignment (every multiple of the element size mod 32) */
    memset (&c, 0, sizeof (c));
    c.m = p->is_2d ? (p->constant_m > 0 ? p->constant_m : 2) : 1;
    c.stride_extra = p->is_2d ? 8 : 0;
    for (n = (p->constant_n > 0 ? N : 0); n <= N && !bad; n++) {
      int step, nvar = (opt.thorough && !opt.lite) ? 2 : 1, var;
      c.n = n;
      c.vbase = (uint64_t) n * 3;
      c.pchoice = n % 5;
      ref_run (p, &c, &R, &exr);
      {
        int lead = -1, i;
        for (i = 0; i < VR_NARR && lead < 0; i++) if (R.sh.present[i]) lead = i;
        step = lead >= 0 ? declared_align (p, lead) : 1;
      }
      for (var = 0; var < nvar && !bad; var++)
        for (lo = 0; lo < 32 && !bad; lo += step) {
          if (opt.lite && lo > 2 * step && lo != 16 + step) continue;	/* aligned, +1, +2 elements, past 16 */
          set_offsets (p, &c, lo, var);
          st_pt++;
          if (one_run (p, t, &c, &R, &exr, text)) bad = 1;
        }
      vr_arena_free (&R);
      if (v_expired ()) break;
    }

    /* 2. 2-D shapes: m in {0,1,3}, strides tight / with gap */
    if (p->is_2d && !bad && p->constant_m <= 0) {
      static const int ms[] = { 0, 1, 3 };
      static const int extra[] = { 0, 8, 40 };
      int a, b, k;
      int ns[6];
      ns[0] = 0; ns[1] = 1; ns[2] = V - 1; ns[3] = V; ns[4] = V + 1; ns[5] = 2 * V + 3;
      for (a = 0; a < 3 && !bad; a++) for (b = 0; b < 3 && !bad; b++) for (k = 0; k < 6 && !bad; k++) {
        if (p->constant_n > 0 && k > 0) continue;
        memset (&c, 0, sizeof (c));
        c.m = ms[a];
        c.stride_extra = extra[b];
        c.n = p->constant_n > 0 ? p->constant_n : ns[k];
        c.vbase = 11 * k;
        c.pchoice = k;
        ref_run (p, &c, &R, &exr);
        set_offsets (p, &c, (k * 4) % 32, 1);
        st_pt++;
        if (one_run (p, t, &c, &R, &exr, text)) bad = 1;
        vr_arena_free (&R);
      }
      /* bottom-up arrays (negative strides): all, destinations only, sources only */
      for (a = 0; a < 3 && !bad; a++) for (b = 0; b < 2 && !bad; b++) {
        static const unsigned flips[] = { 0xfffu, 0x00fu, 0xff0u };
        memset (&c, 0, sizeof (c));
        c.m = 3;
        c.stride_extra = b ? 40 : 0;
        c.n = p->constant_n > 0 ? p->constant_n : V + 1;
        c.vbase = 5 + a;
        c.pchoice = a;
        c.flip = flips[a];
        ref_run (p, &c, &R, &exr);
        set_offsets (p, &c, 4 * a, 1);
        st_pt++;
        if (one_run (p, t, &c, &R, &exr, text)) bad = 1;
        vr_arena_free (&R);
      }
    }

    /* 3. value tables: all tuples of the per-size alphabets over the source arrays */
    if (!bad && p->constant_n <= 0) {
      uint64_t total = 1;
      int i, pc, npc;
      int have_param = 0;
      VShape sh;
      vr_shape (p, 16, 0, &sh);
      for (i = 0; i < VR_NARR; i++) if (sh.present[i]) {
        uint64_t a = v_alphabet_size (sh.esize[i], sh.isfloat[i]);
        if (total < 70000) total *= a;
      }
      if (total > 70000) total = 70000;
      /* resampling: start + n * increment has to stay inside the documented 31-bit position range */
      for (i = 0; i < p->n_insns; i++) if (op_is_ldres (p->insns[i].opcode) && total > 3000) total = 3000;
      if (total < 64) total = 64;
      for (i = ORC_VAR_P1; i <= ORC_VAR_P8; i++) if (p->vars[i].size) have_param = 1;
      npc = have_param ? (opt.lite ? 2 : opt.thorough ? 8 : 5) : 1;
      /* loadoff / ldres keep the source requirement proportional to n: fine */
      for (pc = 0; pc < npc && !bad; pc++) {
        memset (&c, 0, sizeof (c));
        c.m = p->is_2d ? 1 : 1;
        c.n = (int) total + 5;
        c.pchoice = pc;
        c.vbase = 0;
        ref_run (p, &c, &R, &exr);
        set_offsets (p, &c, pc % 2 ? (1 % declared_align (p, 0) == 0 ? 1 : 0) : 0, 0);
        st_pt++;
        if (one_run (p, t, &c, &R, &exr, text)) bad = 1;
        vr_arena_free (&R);
      }
    }
    /* 4. float programs: the caller's rounding direction.  Emulation and generated C round the way the calling thread
     * has set with fesetround(); native code has to do the same (it adds flush-to-zero to the caller's MXCSR, it does
     * not replace it).  Value table run under the three non-default directions, native vs emulation. */
    if (!bad && opt.rounding && p->constant_n <= 0 && program_has_float (p)) {
      static const int dirs[] = { FE_UPWARD, FE_DOWNWARD, FE_TOWARDZERO };
      int di;
      for (di = 0; di < 3 && !bad; di++) {
        memset (&c, 0, sizeof (c));
        c.m = 1;
        c.n = 3000 + 5;
        c.pchoice = di;
        c.vbase = 0;
        fesetround (dirs[di]);
        ref_run (p, &c, &R, &exr);
        set_offsets (p, &c, 0, 0);
        st_pt++;
        if (one_run (p, t, &c, &R, &exr, text)) bad = 1;
        fesetround (FE_TONEAREST);
        vr_arena_free (&R);
      }
    }
    if (nsamples < 2 && (pidx % 997) == 1 && !bad) {
      nsamples++;
      v_out ("{\"t\":\"sample\",\"program\":\"%s\",\"target\":\"%s\",\"n_range\":[0,%d],\"lead_offsets\":\"0..31\",\"value_table\":\"all tuples of per-size alphabets\"}",
          v_esc (text ? text : oprog_oneline (p)), t->name, N);
    }
  }
  if (any) st_progs_native++;
}

/* ------------------------------------------------------------ enumeration */

/* C11: every subset of each target's feature bits, 64-bit, default frame
 * pointer / jump flags (the host executes every subset). */
static int expand_featsets (int n)
{
  VTarget base[8];
  int i, k = 0;
  memcpy (base, targets, sizeof (base));
  for (i = 0; i < n; i++) {
    unsigned feat[8], nf = 0, all = 0, m, j;
    if (!strcmp (base[i].name, "sse")) {
      feat[nf++] = ORC_TARGET_SSE_SSE2; feat[nf++] = ORC_TARGET_SSE_SSE3; feat[nf++] = ORC_TARGET_SSE_SSSE3;
      feat[nf++] = ORC_TARGET_SSE_SSE4_1; feat[nf++] = ORC_TARGET_SSE_SSE4_2;
    } else if (!strcmp (base[i].name, "avx")) {
      feat[nf++] = ORC_TARGET_AVX_AVX; feat[nf++] = ORC_TARGET_AVX_AVX2;
    } else {
      feat[nf++] = ORC_TARGET_MMX_MMX; feat[nf++] = ORC_TARGET_MMX_MMXEXT; feat[nf++] = ORC_TARGET_MMX_3DNOW;
      feat[nf++] = ORC_TARGET_MMX_SSSE3; feat[nf++] = ORC_TARGET_MMX_SSE4_1; feat[nf++] = ORC_TARGET_MMX_SSE4_2;
    }
    for (j = 0; j < nf; j++) all |= feat[j];
    for (m = 0; m < (1u << nf); m++) {
      unsigned f = base[i].flags & ~all;
      for (j = 0; j < nf; j++) if (m & (1u << j)) f |= feat[j];
      if (opt.only_flags >= 0 && (long) f != opt.only_flags) continue;
      targets[k].target = base[i].target;
      targets[k].name = base[i].name;
      targets[k].flags = f;
      snprintf (tlabel[k], sizeof (tlabel[k]), "%s/0x%x", base[i].name, f);
      k++;
    }
  }
  return k;
}

static long g_idx, g_start;

static void on_prog (VProg * vp, void *user)
{
  long idx = g_idx++;
  OrcProgram *p;
  char text[4096];
  (void) user;
  if (idx < g_start || (idx % opt.nshards) != opt.shard) return;
  if (opt.only && strcmp (opt.only, vp->name)) return;
  if (v_expired ()) return;
  vprog_text (vp, text, sizeof (text));
  p = vprog_build (vp);
  explore_program (p, text, idx);
  orc_program_free (p);
}

static char *read_file (const char *fn)
{
  FILE *f = fopen (fn, "rb");
  long n;
  char *b;
  if (!f) return NULL;
  fseek (f, 0, SEEK_END);
  n = ftell (f);
  fseek (f, 0, SEEK_SET);
  b = malloc (n + 1);
  if (fread (b, 1, n, f) != (size_t) n) { fclose (f); free (b); return NULL; }
  b[n] = 0;
  fclose (f);
  return b;
}

static void worker (long start, void *user)
{
  (void) user;
  g_idx = 0;
  g_start = start;
  orc_init ();
  v_ops_init ();
  v_install_handlers ();
  ntargets = v_get_targets (targets, opt.targets);
  if (opt.featsets) ntargets = expand_featsets (ntargets);
  if (strstr (opt.levels, "L1")) pgen_L1 (on_prog, NULL, opt.classes);
  if (strstr (opt.levels, "L2")) pgen_L2 (on_prog, NULL, opt.classes);
  if (strstr (opt.levels, "L3")) pgen_L3 (on_prog, NULL, opt.classes);
  if (strstr (opt.levels, "L5")) pgen_L5 (on_prog, NULL);
  if (strstr (opt.levels, "LB")) pgen_LB (on_prog, NULL);
  if (strstr (opt.levels, "LW")) pgen_LW (on_prog, NULL);
  if (strstr (opt.levels, "L6")) pgen_L6 (on_prog, NULL, opt.classes);
  if (strstr (opt.levels, "L4") && opt.corpus) {
    char buf[2048], *fn, *save;
    strncpy (buf, opt.corpus, sizeof (buf) - 1);
    buf[sizeof (buf) - 1] = 0;
    for (fn = strtok_r (buf, ":", &save); fn; fn = strtok_r (NULL, ":", &save)) {
      char *code = read_file (fn);
      OrcProgram **progs = NULL;
      int n, i;
      if (!code) continue;
      n = orc_parse (code, &progs);
      for (i = 0; i < n; i++) {
        long idx = g_idx++;
        if (idx >= g_start && (idx % opt.nshards) == opt.shard && !v_expired () && (!opt.only || !strcmp (opt.only, progs[i]->name))) {
          int k, isf = 0;
          for (k = 0; k < progs[i]->n_insns; k++) if (op_is_float (progs[i]->insns[k].opcode)) isf = 1;
          if ((isf && (opt.classes & PG_FLOAT)) || (!isf && (opt.classes & PG_INT)))
            explore_program (progs[i], NULL, idx);
        }
      }
      free (code);
    }
  }
  v_out ("{\"t\":\"stat\",\"programs\":%ld,\"programs_native\":%ld,\"compiled\":%ld,\"nocompile\":%ld,\"runs\":%ld,\"points\":%ld,\"elements\":%ld,\"violations_raw\":%ld,\"same_code_skipped\":%ld}",
      st_programs, st_progs_native, st_compiled, st_nocompile, st_runs, st_pt, st_elems, st_viol, st_samecode);
  v_out ("{\"t\":\"max\",\"space_size\":%ld}", g_idx);
  if (vr_ftz_before_rounding) v_out ("{\"t\":\"viol\",\"key\":\"C18|paths|ftz-before-rounding\",\"what\":\"native float code returned a zero where emulation returns the smallest normal (result tiny before rounding, normal after): %ld elements in this shard\",\"replay\":{\"program\":\".function t\\n.dest 4 d1\\n.source 4 s1\\n.source 4 s2\\nmulf d1, s1, s2\\n\",\"a\":\"0x3f7fffff\",\"b\":\"0x00800000\"}}", vr_ftz_before_rounding);
  if (v_expired ()) v_out ("{\"t\":\"incomplete\",\"why\":\"deadline reached at program index %ld of shard %d\"}", g_idx, opt.shard);
}

int main (int argc, char **argv)
{
  int dl;
  opt.shard = v_argi (argc, argv, "--shard", 0);
  opt.nshards = v_argi (argc, argv, "--nshards", 1);
  opt.thorough = !strcmp (v_arg (argc, argv, "--tier", "quick"), "thorough");
  opt.levels = v_arg (argc, argv, "--levels", "L1");
  opt.targets = v_arg (argc, argv, "--targets", "avx,sse,mmx");
  opt.corpus = v_arg (argc, argv, "--corpus", NULL);
  opt.only = v_arg (argc, argv, "--only", NULL);
  opt.prop = v_arg (argc, argv, "--prop", "C01");
  opt.featsets = v_argi (argc, argv, "--featsets", 0);
  opt.lite = v_argi (argc, argv, "--lite", 0);
  opt.rounding = v_argi (argc, argv, "--rounding", 0);
  opt.only_flags = v_argi (argc, argv, "--only-flags", -1);
  vr_float_mode = !strcmp (v_arg (argc, argv, "--classes", "int"), "float");
  v_finite_only = vr_float_mode;
  opt.classes = !strcmp (v_arg (argc, argv, "--classes", "int"), "float") ? PG_FLOAT : !strcmp (v_arg (argc, argv, "--classes", "int"), "both") ? (PG_INT | PG_FLOAT) : PG_INT;
  dl = v_argi (argc, argv, "--deadline", 0);
  if (dl > 0) v_deadline = v_now () + dl;
  v_supervise (worker, NULL, opt.prop);
  return 0;
}
