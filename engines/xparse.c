/* xparse: exhaustive enumeration of parser inputs (C14) under ASan/UBSan.
 * Spaces: (1) all sequences of <= L lines over a line alphabet x line-ending
 * style x with/without leading .function; (2) limit files; (3) all byte
 * strings of length <= K over a 13-byte alphabet.  Every case: parse, check the
 * error records, compile and free every returned program, free the errors. */
#include "vcommon.h"

typedef struct { const char *kind; const char *text; int mal; } Line;
/* mal: 1 = when a function is open this line alone must yield an error record carrying its line number */
static const Line A[] = {
  { "fn", ".function f", 0 },
  { "fn-noname", ".function", 1 },
  { "fn-extra", ".function g h i", 0 },
  { "src", ".source 2 s1", 0 },
  { "src-align", ".source 2 s2 align 4", 0 },
  { "src-short", ".source 2", 1 },
  { "src-bare", ".source", 1 },
  { "src-align-missing", ".source 2 s3 align", 1 },
  { "src-junk", ".source 2 s4 x y z", 1 },
  { "src-17tok", ".source 2 s5 a b c d e f g h i j k l m n o p q", 1 },
  { "dest", ".dest 2 d1", 0 },
  { "dest-bare", ".dest", 1 },
  { "dest-align-missing", ".dest 2 d2 align", 1 },
  { "temp", ".temp 2 t1", 0 },
  { "temp-bare", ".temp", 1 },
  { "temp-short", ".temp 2", 1 },
  { "const", ".const 2 c1 7", 0 },
  { "const-short", ".const 2 c1", 1 },
  { "const-badnum", ".const 2 c2 1x", 1 },
  { "const-float", ".const 4 c3 1.5", 0 },
  { "const-long", ".const 8 c4 0x123456789L", 0 },
  { "param", ".param 2 p1", 0 },
  { "param-bare", ".param", 1 },
  { "floatparam", ".floatparam 4 p2", 0 },
  { "longparam", ".longparam 8 p3", 0 },
  { "doubleparam-short", ".doubleparam 8", 1 },
  { "acc", ".accumulator 4 a1", 0 },
  { "acc-bare", ".accumulator", 1 },
  { "n", ".n 8", 0 },
  { "n-mult-missing", ".n mult", 1 },
  { "n-junk", ".n foo 3", 1 },
  { "m", ".m 4", 0 },
  { "m-bare", ".m", 1 },
  { "flags2d", ".flags 2d", 0 },
  { "init", ".init initf", 0 },
  { "init-bare", ".init", 1 },
  { "backup", ".backup bk", 0 },
  { "backup-bare", ".backup", 1 },
  { "unknown-dir", ".bogus 1 2", 1 },
  { "op", "addw d1, s1, s1", 0 },
  { "op-few", "addw d1, s1", 1 },
  { "op-many", "addw d1, s1, s1, s1", 1 },
  { "op-x2", "x2 addb d1, s1, s1", 0 },
  { "x2-alone", "x2", 1 },
  { "x4-alone", "x4", 1 },
  { "x2-unknown", "x2 bogus d1", 1 },
  { "op-unknown", "bogus d1, s1", 1 },
  { "op-lit", "addw d1, s1, 3", 0 },
  { "op-lit-hex", "andw d1, s1, 0x7f", 0 },
  { "op-lit-neg", "addw t1, s1, -1", 0 },
  { "op-lit-bad", "addw d1, s1, 1x", 1 },
  { "op-lit-float", "addf d1, s1, 1.5", 0 },
  { "op-lit-huge", "copyw d1, 99999999999999999999999", 0 },
  { "op-spaces", "subw d1 s1 s1", 0 },
  { "op-20tok", "addw d1, s1, s1, a, b, c, d, e, f, g, h, i, j, k, l, m, n", 1 },
  { "op-baddest", "addw nosuch, s1, s1", 1 },
  { "comment", "# comment", 0 },
  { "blank", "", 0 },
  { "spaces", "  \t ", 0 },
  { "op-trailing-comment", "xorw d1, s1, s1 # trailing", 0 },
};
#define NA ((int)(sizeof(A)/sizeof(A[0])))

static const char BYTES[] = { '.', 'x', '2', '4', 'a', '0', '-', ',', '#', ' ', '\t', '\n', '\r' };
#define NB 13

static long st_cases, st_programs, st_errors, st_compiled, st_viol, st_mal_checked;
static int nsamples;
static int maxlines;
static char *seen[400];
static int nseen;

static void viol (const char *cls, const char *sig, const char *msg, const char *input)
{
  char key[300];
  int i;
  st_viol++;
  snprintf (key, sizeof (key), "C14|%s|%s", cls, sig);
  for (i = 0; i < nseen; i++) if (!strcmp (seen[i], key)) return;
  if (nseen < 400) seen[nseen++] = strdup (key);
  v_out ("{\"t\":\"viol\",\"key\":\"%s\",\"what\":\"%s; input: %s\",\"replay\":{\"text\":\"%s\"}}", v_esc (key), v_esc (msg), v_esc (input), v_esc (input));
}

static int count_lines (const char *s)
{
  int n = 0;
  const char *p = s;
  if (!*s) return 0;
  while (*p) { const char *e = strchr (p, '\n'); n++; if (!e) break; p = e + 1; }
  return n;
}

/* one case: parse + oracles.  expect_line > 0: an error with that line number is required */
static void one_case_exact (const char *text, const char *sig, int expect_line, int do_compile);

/* the parser gets the text in a heap block of exactly strlen+1 bytes, so that a read past the terminating NUL is an
 * AddressSanitizer report and not a silent read of whatever the harness buffer held */
static void one_case (const char *text_in, const char *sig, int expect_line, int do_compile)
{
  size_t n = strlen (text_in);
  char *text = malloc (n + 1);
  memcpy (text, text_in, n + 1);
  one_case_exact (text, sig, expect_line, do_compile);
  free (text);
}

static void one_case_exact (const char *text, const char *sig, int expect_line, int do_compile)
{
  OrcProgram **programs = NULL;
  OrcParseError **errors = NULL;
  int np = 0, ne = 0, i, nl = count_lines (text), rc, found = 0;
  char msg[300];
  st_cases++;
  rc = orc_parse_code (text, &programs, &np, &errors, &ne);
  (void) rc;
  st_programs += np;
  st_errors += ne;
  for (i = 0; i < ne; i++) {
    if (!errors[i] || !errors[i]->text) { viol ("error-record", sig, "error record without text", text); continue; }
    if (errors[i]->line_number < 1 || errors[i]->line_number > nl) {
      snprintf (msg, sizeof (msg), "error record with line number %d outside 1..%d (%s)", errors[i]->line_number, nl, errors[i]->text);
      viol ("line-number", sig, msg, text);
    }
    if (errors[i]->line_number == expect_line) found = 1;
  }
  if (expect_line > 0) {
    st_mal_checked++;
    if (!found) {
      snprintf (msg, sizeof (msg), "malformed line %d produced no error record with its line number (%d errors reported)", expect_line, ne);
      viol ("unreported", sig, msg, text);
    }
  }
  if ((rc == 0) != (ne == 0)) viol ("return-code", sig, "return value disagrees with the number of error records", text);
  for (i = 0; i < np; i++) {
    if (!programs[i]) { viol ("null-program", sig, "NULL program returned", text); continue; }
    if (do_compile) {
      OrcCompileResult r = orc_program_compile (programs[i]);
      st_compiled++;
      if (ORC_COMPILE_RESULT_IS_FATAL (r) && programs[i]->orccode && programs[i]->code_exec && 0) viol ("compile", sig, "fatal result left code", text);
    }
    orc_program_free (programs[i]);
  }
  free (programs);
  orc_parse_error_freev (errors);
}

typedef struct { int mode; int maxlen; int shard, nshards; } Cfg;
static Cfg cfg;

static void line_space (long start, long *pidx)
{
  /* sequences of 1..maxlen lines; each with/without a leading valid .function; 3 ending styles */
  /* style 2: last line without newline; style 3: CRLF file cut between the final CR and LF */
  static const char *endings[] = { "\n", "\r\n", "\n", "\r\n" };
  int len, style, lead;
  for (len = 1; len <= cfg.maxlen; len++) {
    long total = 1, k;
    int i;
    for (i = 0; i < len; i++) total *= NA;
    for (k = 0; k < total; k++) {
      int li[4];
      long t = k;
      for (i = len - 1; i >= 0; i--) { li[i] = (int) (t % NA); t /= NA; }
      for (lead = 0; lead < 2; lead++) for (style = 0; style < 4; style++) {
        long idx = (*pidx)++;
        char text[1024], sig[200];
        size_t o = 0, so = 0;
        int nmal = 0, malpos = -1, opens = lead;
        if (idx < start || (idx % cfg.nshards) != cfg.shard) continue;
        if (v_expired ()) return;
        if (lead) o += snprintf (text + o, sizeof (text) - o, ".function lead%s.source 2 s1%s.dest 2 d1%s.temp 2 t1%s", endings[style], endings[style], endings[style], endings[style]);
        for (i = 0; i < len; i++) {
          const Line *L = &A[li[i]];
          int last = i == len - 1;
          o += snprintf (text + o, sizeof (text) - o, "%s%s", L->text, (last && style == 2) ? "" : (last && style == 3) ? "\r" : endings[style]);
          so += snprintf (sig + so, sizeof (sig) - so, "%s%s", i ? "+" : "", L->kind);
          if (L->mal && opens) { nmal++; malpos = i; }
          if (!strncmp (L->kind, "fn", 2)) opens = 1;
        }
        so += snprintf (sig + so, sizeof (sig) - so, "%s", lead ? "/lead" : "/nolead");
        { char k_[260]; snprintf (k_, sizeof k_, "C14|crash|%s", sig); v_case (idx, k_, text); }
        /* expectation: exactly one malformed line in a file whose function is open */
        one_case (text, sig, (nmal == 1 && opens) ? (lead ? 4 : 0) + malpos + 1 : 0, 1);
        if (nsamples < 3 && len == cfg.maxlen && (idx % 50021) == 11) {
          nsamples++;
          v_out ("{\"t\":\"sample\",\"space\":\"lines\",\"text\":\"%s\"}", v_esc (text));
        }
      }
    }
  }
}

static void limit_space (long start, long *pidx)
{
  static const int insn_counts[] = { 1, 99, 100, 101, 150, 300 };
  static const char *classes[] = { ".source 1 s%d", ".dest 1 d%d", ".temp 1 t%d", ".const 1 c%d %d", ".param 1 p%d", ".accumulator 2 a%d" };
  static const int class_limits[] = { 8, 4, 16, 8, 8, 4 };
  static const int ntok[] = { 15, 16, 17, 18, 40, 200 };
  static const int nerrs[] = { 1, 31, 32, 33, 64, 65, 200 };
  int a, c, k;
  char *text = malloc (1 << 20);
  int hs;
  /* hs: shape of the function around the limit - 0 source + destination, 1 accumulator only (variable slot 0, the first
   * destination, stays undeclared) */
  for (hs = 0; hs < 2; hs++) for (a = 0; a < 6; a++) {
    long idx = (*pidx)++;
    size_t o = 0;
    char sig[64];
    if (!(idx < start || (idx % cfg.nshards) != cfg.shard)) {
      o += sprintf (text + o, hs ? ".function many\n.source 2 s1\n.accumulator 2 a1\n.temp 2 t1\ncopyw t1, s1\n" : ".function many\n.source 2 s1\n.dest 2 d1\n.temp 2 t1\ncopyw t1, s1\n");
      for (k = 0; k < insn_counts[a]; k++) o += sprintf (text + o, "addw t1, t1, s1\n");
      o += sprintf (text + o, hs ? "accw a1, t1\n" : "copyw d1, t1\n");
      snprintf (sig, sizeof (sig), "insns=%d%s", insn_counts[a] + 2, hs ? "/acc-only" : "");
      { char k_[260]; snprintf (k_, sizeof k_, "C14|crash|%s", sig); v_case (idx, k_, sig); }
      one_case (text, sig, 0, 1);
    }
  }
  /* fill sweep: the compiler's instruction table filled to every level near its end by one-slot instructions
   * (temporaries only), then one instruction whose scalar operand is used for the first time (a literal, a .const, a
   * .param: each needs a load slot of its own), then the store */
  for (k = 86; k <= 99; k++) for (c = 0; c < 4; c++) {
    long idx = (*pidx)++;
    size_t o = 0;
    char sig[64];
    int j;
    static const char *tails[] = { "addw t1, t1, 7\n", "addw t1, t1, c1\n", "addw t1, t1, p1\n", "addw t1, t1, 7\nsubw t1, t1, 9\n" };
    if (idx < start || (idx % cfg.nshards) != cfg.shard) continue;
    o += sprintf (text + o, ".function fill\n.source 2 s1\n.dest 2 d1\n.temp 2 t1\n.const 2 c1 5\n.param 2 p1\ncopyw t1, s1\n");
    for (j = 0; j < k; j++) o += sprintf (text + o, "addw t1, t1, t1\n");
    o += sprintf (text + o, "%scopyw d1, t1\n", tails[c]);
    snprintf (sig, sizeof (sig), "fill=%d/scalar-tail=%d", k, c);
    { char k_[260]; snprintf (k_, sizeof k_, "C14|crash|%s", sig); v_case (idx, k_, sig); }
    one_case (text, sig, 0, 1);
  }
  for (hs = 0; hs < 2; hs++) for (c = 0; c < 6; c++) for (k = class_limits[c] - 1; k <= class_limits[c] + 2; k++) {
    long idx = (*pidx)++;
    size_t o = 0;
    char sig[64];
    int j;
    if (hs && c == 1) continue;	/* the destination class itself */
    if (idx < start || (idx % cfg.nshards) != cfg.shard) continue;
    o += sprintf (text + o, hs ? ".function vars\n.source 2 sx\n.accumulator 2 ax\n" : ".function vars\n.source 1 sx\n.dest 1 dx\n");
    for (j = 0; j < k; j++) { o += sprintf (text + o, classes[c], j + 1, j + 1); o += sprintf (text + o, "\n"); }
    o += sprintf (text + o, hs ? "accw ax, sx\n" : "copyb dx, sx\n");
    snprintf (sig, sizeof (sig), "vars=%s*%d%s", classes[c], k, hs ? "/acc-only" : "");
    { char k_[260]; snprintf (k_, sizeof k_, "C14|crash|%s", sig); v_case (idx, k_, sig); }
    one_case (text, sig, 0, 1);
  }
  /* the same overruns with the optional trailing tokens of a declaration (type name, alignment), which the parser
   * stores into the variable it has just declared */
  {
    static const char *tclasses[] = { ".source 1 s%d guint8", ".source 1 s%d align 16", ".dest 1 d%d guint8", ".dest 1 d%d align 16 guint8", ".accumulator 2 a%d gint16", ".temp 1 t%d x", ".param 1 p%d gint8", ".const 1 c%d 7 extra" };
    static const int tlimits[] = { 8, 8, 4, 4, 4, 16, 8, 8 };
    for (c = 0; c < 8; c++) for (k = tlimits[c] - 2; k <= tlimits[c] + 2; k++) {
      long idx = (*pidx)++;
      size_t o = 0;
      char sig[64];
      int j;
      if (idx < start || (idx % cfg.nshards) != cfg.shard) continue;
      o += sprintf (text + o, ".function vars\n.source 1 sx\n.dest 1 dx\n");
      for (j = 0; j < k; j++) { o += sprintf (text + o, tclasses[c], j + 1); o += sprintf (text + o, "\n"); }
      o += sprintf (text + o, "copyb dx, sx\n");
      snprintf (sig, sizeof (sig), "vars+tokens=%d*%d", c, k);
      { char k_[260]; snprintf (k_, sizeof k_, "C14|crash|%s", sig); v_case (idx, k_, sig); }
      one_case (text, sig, 0, 1);
    }
  }
  /* distinct literal constants in instructions */
  for (hs = 0; hs < 2; hs++) for (k = 7; k <= 12; k++) {
    long idx = (*pidx)++;
    size_t o = 0;
    char sig[64];
    int j;
    if (idx < start || (idx % cfg.nshards) != cfg.shard) continue;
    o += sprintf (text + o, hs ? ".function lits\n.source 2 s1\n.accumulator 2 a1\n.temp 2 t1\ncopyw t1, s1\n" : ".function lits\n.source 2 s1\n.dest 2 d1\n.temp 2 t1\ncopyw t1, s1\n");
    for (j = 0; j < k; j++) o += sprintf (text + o, "addw t1, t1, %d\n", j + 1);
    o += sprintf (text + o, hs ? "accw a1, t1\n" : "copyw d1, t1\n");
    snprintf (sig, sizeof (sig), "literals=%d%s", k, hs ? "/acc-only" : "");
    { char k_[260]; snprintf (k_, sizeof k_, "C14|crash|%s", sig); v_case (idx, k_, sig); }
    one_case (text, sig, 0, 1);
  }
  /* directive lines of exactly 2..20 tokens that END in a keyword which expects a value (.n mult/min/max, .source/.dest
   * align): the value is missing, at every position of the token table */
  {
    static const char *heads[] = { ".n", ".n", ".n", ".source 2 s2", ".dest 2 d2" };
    static const char *kws[] = { "mult", "min", "max", "align", "align" };
    static const char *vals[] = { "4", "8", "64", "2", "2" };
    int h, nt;
    for (h = 0; h < 5; h++) for (nt = 2; nt <= 20; nt++) {
      long idx = (*pidx)++;
      size_t o = 0;
      char sig[64];
      int have, first = 1;
      if (idx < start || (idx % cfg.nshards) != cfg.shard) continue;
      o += sprintf (text + o, ".function kwend\n.source 2 s1\n.dest 2 d1\n%s", heads[h]);
      have = h < 3 ? 1 : 3;
      if (have >= nt) continue;
      /* pairs "keyword value" while two more tokens fit before the final keyword */
      while (have + 2 < nt) { o += sprintf (text + o, " %s %s", kws[h], vals[h]); have += 2; first = 0; }
      if (have + 1 < nt) { o += sprintf (text + o, " %s", h < 3 ? vals[h] : "x"); have++; }	/* odd filler token */
      o += sprintf (text + o, " %s\ncopyw d1, s1\n", kws[h]);
      (void) first;
      snprintf (sig, sizeof (sig), "tokens=%d/ends-in-%s/%s", nt, kws[h], h < 3 ? ".n" : h == 3 ? ".source" : ".dest");
      { char k_[260]; snprintf (k_, sizeof k_, "C14|crash|%s", sig); v_case (idx, k_, sig); }
      one_case (text, sig, 0, 1);
    }
  }
  /* many tokens on a directive and on an opcode line; very long token */
  for (a = 0; a < 6; a++) for (c = 0; c < 2; c++) {
    long idx = (*pidx)++;
    size_t o = 0;
    char sig[64];
    int j;
    if (idx < start || (idx % cfg.nshards) != cfg.shard) continue;
    o += sprintf (text + o, ".function toks\n.source 2 s1\n.dest 2 d1\n");
    o += sprintf (text + o, c ? "addw" : ".source");
    for (j = 1; j < ntok[a]; j++) o += sprintf (text + o, " t%d", j);
    o += sprintf (text + o, "\ncopyw d1, s1\n");
    snprintf (sig, sizeof (sig), "tokens=%d/%s", ntok[a], c ? "opcode" : "directive");
    { char k_[260]; snprintf (k_, sizeof k_, "C14|crash|%s", sig); v_case (idx, k_, sig); }
    one_case (text, sig, 0, 1);
  }
  {
    long idx = (*pidx)++;
    if (!(idx < start || (idx % cfg.nshards) != cfg.shard)) {
      size_t o = 0;
      int j;
      o += sprintf (text + o, ".function longtok\n.source 2 ");
      for (j = 0; j < 10000; j++) text[o++] = 'a' + j % 26;
      o += sprintf (text + o, "\n.dest 2 d1\ncopyw d1, ");
      for (j = 0; j < 10000; j++) text[o++] = 'a' + j % 26;
      o += sprintf (text + o, "\n");
      v_case (idx, "C14|crash|longtoken", "longtoken");
      one_case (text, "longtoken", 0, 1);
    }
  }
  /* names of 1..70000 characters: the function name (printed into the listing by every back end when the program is
   * compiled) and variable names */
  {
    static const int nlen[] = { 1, 100, 180, 189, 190, 198, 199, 200, 201, 255, 256, 300, 1000, 5000, 70000 };
    for (a = 0; a < 15; a++) for (c = 0; c < 2; c++) {
      long idx = (*pidx)++;
      size_t o = 0;
      char sig[64];
      int j;
      if (idx < start || (idx % cfg.nshards) != cfg.shard) continue;
      o += sprintf (text + o, ".function ");
      if (c == 0) for (j = 0; j < nlen[a]; j++) text[o++] = (char) ('a' + j % 26); else o += sprintf (text + o, "shortname");
      o += sprintf (text + o, "\n.dest 2 d1\n.source 2 ");
      if (c == 1) for (j = 0; j < nlen[a]; j++) text[o++] = (char) ('a' + j % 26); else o += sprintf (text + o, "s1");
      o += sprintf (text + o, "\ncopyw d1, ");
      if (c == 1) for (j = 0; j < nlen[a]; j++) text[o++] = (char) ('a' + j % 26); else o += sprintf (text + o, "s1");
      o += sprintf (text + o, "\n");
      snprintf (sig, sizeof (sig), "%s-name-length=%d", c ? "variable" : "function", nlen[a]);
      { char k_[260]; snprintf (k_, sizeof k_, "C14|crash|%s", sig); v_case (idx, k_, sig); }
      one_case (text, sig, 0, 1);
    }
  }
  /* lane-wise prefixes whose operands or results are wider than the largest variable size, and variable sizes that
   * are not a power of two or are larger than 8 */
  {
    static const char *wops[][3] = { { "convslq", "8", "4" }, { "convsbw", "2", "1" }, { "addq", "8", "8" }, { "mulslq", "8", "4" }, { "convql", "4", "8" }, { "splatbl", "4", "1" }, { "mergelq", "8", "4" } };
    static const int sizes[] = { 0, 3, 5, 6, 7, 12, 16, 32, 64, 255, 256, 65536 };
    int m;
    for (a = 0; a < 7; a++) for (m = 2; m <= 4; m *= 2) {
      long idx = (*pidx)++;
      char sig[64];
      int ds = atoi (wops[a][1]) * m, ss = atoi (wops[a][2]) * m;
      if (idx < start || (idx % cfg.nshards) != cfg.shard) continue;
      if (!strcmp (wops[a][0], "mergelq")) sprintf (text, ".function wide\n.dest %d d\n.source %d s\n.source %d s2\nx%d %s d, s, s2\n", ds, ss, ss, m, wops[a][0]);
      else if (!strcmp (wops[a][0], "addq") || !strcmp (wops[a][0], "mulslq")) sprintf (text, ".function wide\n.dest %d d\n.source %d s\nx%d %s d, s, s\n", ds, ss, m, wops[a][0]);
      else sprintf (text, ".function wide\n.dest %d d\n.source %d s\nx%d %s d, s\n", ds, ss, m, wops[a][0]);
      snprintf (sig, sizeof (sig), "prefix-size=x%d/%s", m, wops[a][0]);
      { char k_[260]; snprintf (k_, sizeof k_, "C14|crash|%s", sig); v_case (idx, k_, sig); }
      one_case (text, sig, 0, 1);
    }
    for (a = 0; a < 12; a++) for (c = 0; c < 3; c++) {
      long idx = (*pidx)++;
      char sig[64];
      if (idx < start || (idx % cfg.nshards) != cfg.shard) continue;
      sprintf (text, ".function odd\n.dest %d d\n.source %d s\n.temp %d t\n%s t, s\n%s d, t\n", c == 0 ? sizes[a] : 2, c == 1 ? sizes[a] : 2, c == 2 ? sizes[a] : 2, "copyw", "copyw");
      snprintf (sig, sizeof (sig), "variable-size=%d/%d", sizes[a], c);
      { char k_[260]; snprintf (k_, sizeof k_, "C14|crash|%s", sig); v_case (idx, k_, sig); }
      one_case (text, sig, 0, 1);
    }
  }
  /* many errors in one file */
  for (a = 0; a < 7; a++) {
    long idx = (*pidx)++;
    size_t o = 0;
    char sig[64];
    int j;
    if (idx < start || (idx % cfg.nshards) != cfg.shard) continue;
    o += sprintf (text + o, ".function errs\n.source 2 s1\n.dest 2 d1\n");
    for (j = 0; j < nerrs[a]; j++) o += sprintf (text + o, "bogus%d d1, s1\n", j);
    snprintf (sig, sizeof (sig), "errors=%d", nerrs[a]);
    { char k_[260]; snprintf (k_, sizeof k_, "C14|crash|%s", sig); v_case (idx, k_, sig); }
    one_case (text, sig, 0, 1);
  }
  /* many functions */
  {
    long idx = (*pidx)++;
    if (!(idx < start || (idx % cfg.nshards) != cfg.shard)) {
      size_t o = 0;
      int j;
      for (j = 0; j < 100; j++) o += sprintf (text + o, ".function f%d\n.source 1 s1\n.dest 1 d1\ncopyb d1, s1\n", j);
      v_case (idx, "C14|crash|functions=100", "functions=100");
      one_case (text, "functions=100", 0, 1);
    }
  }
  free (text);
}

static void byte_space (long start, long *pidx)
{
  int len;
  for (len = 0; len <= cfg.maxlen; len++) {
    long total = 1, k;
    int i;
    for (i = 0; i < len; i++) total *= NB;
    for (k = 0; k < total; k++) {
      long idx = (*pidx)++, t = k;
      char text[16], sig[64];
      if (idx < start || (idx % cfg.nshards) != cfg.shard) continue;
      if (v_expired ()) return;
      for (i = len - 1; i >= 0; i--) { text[i] = BYTES[t % NB]; t /= NB; }
      text[len] = 0;
      snprintf (sig, sizeof (sig), "bytes/%s", v_esc (text));
      { char k_[260]; snprintf (k_, sizeof k_, "C14|crash|%s", sig); v_case (idx, k_, text); }
      one_case (text, sig, 0, 1);
      if (nsamples < 5 && len == cfg.maxlen && (idx % 90001) == 17) {
        nsamples++;
        v_out ("{\"t\":\"sample\",\"space\":\"bytes\",\"text\":\"%s\"}", v_esc (text));
      }
    }
  }
}

/* space 4: every token of length <= maxlen over a numeric-spelling alphabet, in every place where the parser converts a
 * token to a number (constant values of each size, literal operands, sizes, alignments, .n/.m values) */
static const char TOK[] = { '-', '+', '0', '1', '9', 'x', '.', 'e', 'l', 'L', 'a' };
#define NT 11
static const char *TEMPL[] = {
  ".function t\n.source 2 s1\n.dest 2 d1\n.const 2 c1 %s\naddw d1, s1, c1\n",
  ".function t\n.source 8 s1\n.dest 8 d1\n.const 8 c1 %s\naddq d1, s1, c1\n",
  ".function t\n.source 4 s1\n.dest 4 d1\n.const 4 c1 %s\naddf d1, s1, c1\n",
  ".function t\n.source 2 s1\n.dest 2 d1\naddw d1, s1, %s\n",
  ".function t\n.source 4 s1\n.dest 4 d1\naddf d1, s1, %s\n",
  ".function t\n.source 8 s1\n.dest 8 d1\naddd d1, s1, %s\n",
  ".function t\n.source 8 s1\n.dest 8 d1\ncopyq d1, %s\n",
  ".function t\n.source %s s1\n.dest 2 d1\ncopyw d1, s1\n",
  ".function t\n.source 2 s1\n.dest 2 d1 align %s\ncopyw d1, s1\n",
  ".function t\n.n %s\n.source 2 s1\n.dest 2 d1\ncopyw d1, s1\n",
  ".function t\n.n mult %s\n.source 2 s1\n.dest 2 d1\ncopyw d1, s1\n",
  ".function t\n.n min %s\n.n max %s\n.source 2 s1\n.dest 2 d1\ncopyw d1, s1\n",
  ".function t\n.flags 2d\n.m %s\n.source 2 s1\n.dest 2 d1\ncopyw d1, s1\n",
  ".function t\n.temp %s t1\n.source 2 s1\n.dest 2 d1\ncopyw d1, s1\n",
  ".function t\n.param %s p1\n.source 2 s1\n.dest 2 d1\ncopyw d1, s1\n",
};
#define NTEMPL ((int)(sizeof(TEMPL)/sizeof(TEMPL[0])))

static void token_space (long start, long *pidx)
{
  int len, tp;
  for (len = 0; len <= cfg.maxlen; len++) {
    long total = 1, k;
    int i;
    for (i = 0; i < len; i++) total *= NT;
    for (k = 0; k < total; k++) for (tp = 0; tp < NTEMPL; tp++) {
      long idx = (*pidx)++, t = k;
      char tok[16], text[400], sig[64];
      if (idx < start || (idx % cfg.nshards) != cfg.shard) continue;
      if (v_expired ()) return;
      for (i = len - 1; i >= 0; i--) { tok[i] = TOK[t % NT]; t /= NT; }
      tok[len] = 0;
      snprintf (text, sizeof (text), TEMPL[tp], tok, tok);
      snprintf (sig, sizeof (sig), "token/%d/%s", tp, tok);
      { char k_[260]; snprintf (k_, sizeof k_, "C14|crash|%s", sig); v_case (idx, k_, text); }
      one_case (text, sig, 0, 1);
      if (nsamples < 5 && len == cfg.maxlen && (idx % 30011) == 17) {
        nsamples++;
        v_out ("{\"t\":\"sample\",\"space\":\"tokens\",\"text\":\"%s\"}", v_esc (text));
      }
    }
  }
}

static void worker (long start, void *user)
{
  long idx = 0;
  (void) user;
  orc_init ();
  if (cfg.mode == 1) line_space (start, &idx);
  else if (cfg.mode == 2) limit_space (start, &idx);
  else if (cfg.mode == 4) token_space (start, &idx);
  else byte_space (start, &idx);
  v_out ("{\"t\":\"stat\",\"cases\":%ld,\"programs_returned\":%ld,\"error_records\":%ld,\"compiled\":%ld,\"malformed_line_expectations\":%ld,\"violations_raw\":%ld}",
      st_cases, st_programs, st_errors, st_compiled, st_mal_checked, st_viol);
  v_out ("{\"t\":\"max\",\"space_%d\":%ld}", cfg.mode, idx);
  if (v_expired ()) v_out ("{\"t\":\"incomplete\",\"why\":\"deadline in space %d\"}", cfg.mode);
}

int main (int argc, char **argv)
{
  int dl = v_argi (argc, argv, "--deadline", 0);
  const char *replay = v_arg (argc, argv, "--replay-file", NULL);
  cfg.mode = v_argi (argc, argv, "--space", 1);
  cfg.maxlen = v_argi (argc, argv, "--maxlen", 2);
  cfg.shard = v_argi (argc, argv, "--shard", 0);
  cfg.nshards = v_argi (argc, argv, "--nshards", 1);
  (void) maxlines;
  if (dl > 0) v_deadline = v_now () + dl;
  if (replay) {
    FILE *f = fopen (replay, "rb");
    static char buf[1 << 20];
    size_t n = f ? fread (buf, 1, sizeof (buf) - 1, f) : 0;
    buf[n] = 0;
    orc_init ();
    one_case (buf, "replay", 0, 1);
    v_out ("{\"t\":\"stat\",\"cases\":1,\"violations_raw\":%ld}", st_viol);
    return 0;
  }
  v_supervise (worker, NULL, "C14");
  return 0;
}
