/* Run-and-compare machinery: array arenas derived from a built OrcProgram,
 * deterministic input tables, JIT vs emulation comparison. */
#ifndef VRUN_H
#define VRUN_H
#include "vcommon.h"

#define VR_NARR 12		/* D1..D4, S1..S8 */

typedef struct {
  int n, m;
  int off[VR_NARR];		/* byte offset of element 0 from a 64-byte boundary */
  int stride_extra;		/* extra bytes between rows (2-D) */
  int pchoice;			/* which value of each parameter's domain */
  unsigned flip;		/* bit i: array i is walked bottom-up (row 0 is the last row in memory, negative stride) */
  uint64_t vbase;		/* rotation of the value table */
} VRunCfg;

typedef struct {
  int present[VR_NARR], isdest[VR_NARR], esize[VR_NARR], isfloat[VR_NARR];
  int lane[VR_NARR];		/* float lane size inside an element (x2 float programs: 4-byte lanes in 8-byte elements); 0 = element */
  long front[VR_NARR], need[VR_NARR];	/* elements before index 0 / total elements from index 0 */
  int role[VR_NARR];
  int nsrc_arrays;
  int has_acc;
  int float_prog;
  int float_minmax;		/* program contains a float min/max: +0 and -0 are interchangeable results */
} VShape;

/* value of parameter var for choice k.  Domains are inferred from how the
 * program uses the parameter (shift counts stay below the operand width,
 * offsets and resampling parameters stay small: the opcode reference defines
 * nothing else). */
static int64_t vr_param_value (OrcProgram * p, int var, int k)
{
  int i, j, dom = 0, width = 0, isf = 0;
  OrcVariable *v = &p->vars[var];
  for (i = 0; i < p->n_insns; i++) {
    OrcInstruction *in = &p->insns[i];
    OrcStaticOpcode *o = in->opcode;
    for (j = 0; j < 4; j++) {
      if (!o->src_size[j] || in->src_args[j] != var) continue;
      if (op_is_shift (o) && j == 1) { dom = 1; if (!width || o->src_size[0] * 8 < width) width = o->src_size[0] * 8; }
      else if (op_is_loadoff (o) && j == 1) { if (dom != 1) dom = 2; }
      else if (op_is_ldres (o) && j == 1) { if (!dom) dom = 3; }
      else if (op_is_ldres (o) && j == 2) { if (!dom) dom = 4; }
      else if (o->flags & ORC_STATIC_OPCODE_FLOAT_SRC) isf = 1;
    }
  }
  if (v->param_type == ORC_PARAM_TYPE_FLOAT || v->param_type == ORC_PARAM_TYPE_DOUBLE) isf = 1;
  switch (dom) {
    case 1: { int c[] = { 1, 0, width - 1, width / 2, 3 % width }; return c[k % 5]; }
    case 2: { int c[] = { 1, 0, -1, 2, -3 }; return c[k % 5]; }
    case 3: { int c[] = { 0, 0x8000, 0x18000, 0xffff, 0x10000 }; return c[k % 5]; }
    case 4: { int c[] = { 0x10000, 0x8000, 0x18000, 0x5555, 0x10001 }; return c[k % 5]; }
  }
  if (isf) {
    static const int pick_all[] = { 10, 18, 2, 34, 0, 40, 36, 21 };	/* 1.0, -2.5, denormal, +inf, 0, normal, nan, 2^23+1 */
    static const int pick_fin[] = { 10, 18, 2, 32, 0, 40, 8, 21 };	/* finite only: +max instead of +inf, -min normal instead of nan */
    const int *pick = v_finite_only ? pick_fin : pick_all;
    if (v->size == 8) return (int64_t) VF64[pick[k % 8]];
    return (int64_t) (int32_t) VF32[pick[k % 8]];
  }
  switch (v->size) {
    case 1: { int c[] = { 2, -128, 127, 0, -1, 0x55 }; return c[k % 6]; }
    case 2: { int c[] = { 2, -32768, 32767, 0, -1, 0x1234, 255, 256 }; return c[k % 8]; }
    case 4: { int c[] = { 2, (int) 0x80000000, 0x7fffffff, 0, -1, 0x12345678, 65535, 65536 }; return c[k % 8]; }
    default: {
      /* an 8-byte parameter declared with plain ".param" travels through an int in the C prototype: only values
       * every path represents the same way (non-negative, 31 bits) */
      if (v->param_type == ORC_PARAM_TYPE_INT) { int64_t ci[] = { 2, 0x7fffffff, 0, 0x12345678, 65535, 65536, 1, 255 }; return ci[k % 8]; }
      {
      int64_t c[] = { 2, (int64_t) 0x8000000000000000ULL, 0x7fffffffffffffffLL, 0, -1, 0x123456789abcdef0LL, 0xffffffffLL, 0x100000000LL };
      return c[k % 8];
      }
    }
  }
}

static int64_t vr_src_scalar (OrcProgram * p, int var, int pchoice, int *known)
{
  OrcVariable *v = &p->vars[var];
  *known = 1;
  if (v->vartype == ORC_VAR_TYPE_CONST) {
    /* the constant at its declared width (sign-extended) */
    int sh = 64 - 8 * (v->size > 0 && v->size < 8 ? v->size : 8);
    return sh ? (((int64_t) ((uint64_t) v->value.i << sh)) >> sh) : (int64_t) v->value.i;
  }
  if (v->vartype == ORC_VAR_TYPE_PARAM) return vr_param_value (p, var, pchoice);
  *known = 0;
  return 0;
}

/* Derive which arrays exist and how many elements each needs for (n). */
static void vr_shape (OrcProgram * p, int n, int pchoice, VShape * sh)
{
  int i, j, role = 0;
  memset (sh, 0, sizeof (*sh));
  for (i = 0; i < VR_NARR; i++) {
    OrcVariable *v = &p->vars[i];
    if (v->size == 0 || !v->name) continue;
    if (v->vartype != ORC_VAR_TYPE_DEST && v->vartype != ORC_VAR_TYPE_SRC) continue;
    sh->present[i] = 1;
    sh->isdest[i] = v->vartype == ORC_VAR_TYPE_DEST;
    sh->esize[i] = v->size;
    sh->need[i] = n;
    sh->role[i] = role++;
    if (!sh->isdest[i]) sh->nsrc_arrays++;
  }
  for (i = ORC_VAR_A1; i <= ORC_VAR_A4; i++) if (p->vars[i].size && p->vars[i].vartype == ORC_VAR_TYPE_ACCUMULATOR) sh->has_acc = 1;
  for (i = 0; i < p->n_insns; i++) {
    OrcInstruction *in = &p->insns[i];
    OrcStaticOpcode *o = in->opcode;
    int a = in->src_args[0], known;
    if (op_is_float (o)) {
      sh->float_prog = 1;
      if (!strncmp (o->name, "min", 3) || !strncmp (o->name, "max", 3)) sh->float_minmax = 1;
      for (j = 0; j < 4; j++) if (o->src_size[j] && (o->flags & ORC_STATIC_OPCODE_FLOAT_SRC) && in->src_args[j] < VR_NARR) { sh->isfloat[in->src_args[j]] = 1; sh->lane[in->src_args[j]] = o->src_size[j]; }
      for (j = 0; j < 2; j++) if (o->dest_size[j] && (o->flags & ORC_STATIC_OPCODE_FLOAT_DEST) && in->dest_args[j] < VR_NARR) sh->lane[in->dest_args[j]] = o->dest_size[j];
    }
    if (a < 0 || a >= VR_NARR || !sh->present[a]) continue;
    if (op_is_loadoff (o)) {
      int64_t off = vr_src_scalar (p, in->src_args[1], pchoice, &known);
      if (off < 0 && -off > sh->front[a]) sh->front[a] = (long) -off;
      if (off > 0 && n + off > sh->need[a]) sh->need[a] = (long) (n + off);
    } else if (!strcmp (o->name, "loadupdb")) {
      /* element i reads source i>>1 */
      /* need stays <= n */
    } else if (!strcmp (o->name, "loadupib")) {
      long need = n > 0 ? ((n - 1) >> 1) + 2 : 0;
      if (need > sh->need[a]) sh->need[a] = need;
    } else if (op_is_ldres (o)) {
      int64_t st = vr_src_scalar (p, in->src_args[1], pchoice, &known);
      int64_t inc = vr_src_scalar (p, in->src_args[2], pchoice, &known);
      long need = n > 0 ? (long) (((st + (int64_t) (n - 1) * inc) >> 16) + 2) : 0;
      if (need > sh->need[a]) sh->need[a] = need;
    }
  }
}

typedef struct {
  VArr a[VR_NARR];
  VShape sh;
} VArena;

static int vr_float_mode;		/* 0 exact; 1 across execution paths (NaN payloads, hardware FTZ, min/max zero sign); 2 NaN sign/payload only */
static long vr_ftz_before_rounding;

static void vr_arena_alloc (VArena * A, OrcProgram * p, const VRunCfg * c)
{
  int i;
  vr_shape (p, c->n, c->pchoice, &A->sh);
  for (i = 0; i < VR_NARR; i++) {
    long front;
    if (!A->sh.present[i]) continue;
    front = A->sh.front[i];
    varr_alloc (&A->a[i], A->sh.esize[i], A->sh.need[i] + front, c->m, c->stride_extra, c->off[i], p->vars[i].alignment);
    A->a[i].data += front * A->sh.esize[i];
    /* rowbytes as seen from element 0 */
    A->a[i].rowbytes = (size_t) A->sh.need[i] * A->sh.esize[i];
    if ((c->flip >> i & 1) && c->m > 1) {
      A->a[i].data += (long) (c->m - 1) * A->a[i].stride;
      A->a[i].stride = -A->a[i].stride;
    }
  }
}

static void vr_arena_free (VArena * A)
{
  int i;
  for (i = 0; i < VR_NARR; i++) if (A->sh.present[i]) varr_free (&A->a[i]);
}

static void vr_store (unsigned char *d, int sz, uint64_t v)
{
  switch (sz) {
    case 1: *d = (unsigned char) v; break;
    case 2: { uint16_t x = (uint16_t) v; memcpy (d, &x, 2); break; }
    case 4: { uint32_t x = (uint32_t) v; memcpy (d, &x, 4); break; }
    default: memcpy (d, &v, 8); break;
  }
}

/* Fill every array (sources and destinations; destinations may be read by
 * in-place programs) from the value table.  Front padding and rows are filled
 * as well; gaps and guards keep the canary. */
static void vr_arena_fill (VArena * A, const VRunCfg * c)
{
  int i, r;
  long e;
  for (i = 0; i < VR_NARR; i++) {
    VArr *a;
    int sz;
    long front;
    if (!A->sh.present[i]) continue;
    a = &A->a[i];
    sz = a->esize;
    front = A->sh.front[i];
    for (r = 0; r < (c->m > 0 ? c->m : 1); r++) {
      unsigned char *row = a->data + (long) r * a->stride;
      if (row + A->sh.need[i] * sz > a->mem + a->memlen || row - front * sz < a->mem) {
        fprintf (stderr, "HARNESS: arena overflow var %d esize %d need %ld front %ld rows %d stride %d memlen %zu n %d m %d\n", i, sz, A->sh.need[i], front, c->m, a->stride, a->memlen, c->n, c->m);
        abort ();
      }
      for (e = -front; e < A->sh.need[i]; e++) {
        uint64_t idx = c->vbase + (uint64_t) (e + front) + (uint64_t) r * 7919u;
        if (A->sh.isfloat[i] && A->sh.lane[i] && A->sh.lane[i] < sz) {
          int ln = A->sh.lane[i], q;
          for (q = 0; q < sz / ln; q++) vr_store (row + e * sz + q * ln, ln, v_value (ln, 1, A->sh.role[i], idx * (uint64_t) (sz / ln) + q));
        } else
          vr_store (row + e * sz, sz, v_value (sz, A->sh.isfloat[i], A->sh.role[i], idx));
      }
    }
  }
}

static void vr_exec_setup (OrcExecutor * ex, OrcProgram * p, VArena * A, const VRunCfg * c)
{
  int i;
  memset (ex, 0, sizeof (*ex));
  /* generated callers declare the executor on the stack without clearing it:
   * scratch fields hold garbage on entry */
  ex->counter1 = ex->counter2 = ex->counter3 = 0x5a5a5a5a;
  for (i = ORC_VAR_A2; i <= ORC_VAR_C8; i++) ex->params[i] = 0x5a5a5a5a;
  for (i = 0; i < 4; i++) ex->accumulators[i] = 0x5a5a5a5a;
  orc_executor_set_program (ex, p);
  orc_executor_set_n (ex, c->n);
  orc_executor_set_m (ex, c->m);
  for (i = 0; i < VR_NARR; i++) {
    if (!A->sh.present[i]) continue;
    ex->arrays[i] = A->a[i].data;
    ex->params[i] = A->a[i].stride;
  }
  for (i = ORC_VAR_P1; i <= ORC_VAR_P8; i++) {
    OrcVariable *v = &p->vars[i];
    int64_t val;
    if (!v->size || v->vartype != ORC_VAR_TYPE_PARAM) continue;
    val = vr_param_value (p, i, c->pchoice);
    if (v->size == 8) orc_executor_set_param_int64 (ex, i, val);
    else orc_executor_set_param (ex, i, (int) val);
  }
}

/* Compare the destination arrays (entitled bytes) of two arenas and check
 * that arena X's non-entitled bytes (guards, gaps, sources) are untouched
 * relative to reference arena R, which must have been filled identically and
 * be laid out with the same strides.  Returns 0 if equal; otherwise fills
 * msg. */
/* Memory outside the entitled destination elements after a run: arena X (run) against arena R, allocated and filled
 * identically and never run.  Every byte of every array's mapping other than elements 0..n-1 of the rows of a
 * destination must be as filled.  Returns 0 if so. */
static int vr_untouched (VArena * X, VArena * R, const VRunCfg * c, OrcProgram * p, char *msg, size_t cap)
{
  int i, rows = c->m;
  for (i = 0; i < VR_NARR; i++) {
    VArr *x, *q;
    long lo, hi, lo_r, hi_r, b;
    if (!X->sh.present[i]) continue;
    x = &X->a[i];
    q = &R->a[i];
    lo = x->mem - x->data; hi = (long) x->memlen + lo;
    lo_r = q->mem - q->data; hi_r = (long) q->memlen + lo_r;
    if (lo_r > lo) lo = lo_r;
    if (hi_r < hi) hi = hi_r;
    for (b = lo; b < hi; b++) {
      if (x->data[b] == q->data[b]) continue;
      if (X->sh.isdest[i]) {
        int rr, ent = 0;
        for (rr = 0; rr < (rows > 0 ? rows : 0) && !ent; rr++) {
          long st = (long) rr * x->stride;
          if (b >= st && b < st + (long) c->n * x->esize) ent = 1;
        }
        if (ent) continue;
      }
      snprintf (msg, cap, "%s array %s: byte at offset %ld from element 0 was written, outside elements 0..%d of its %d row(s) (0x%02x, was 0x%02x)",
          X->sh.isdest[i] ? "destination" : "source", p->vars[i].name ? p->vars[i].name : "?", b, c->n - 1, rows, x->data[b], q->data[b]);
      return 1;
    }
  }
  return 0;
}

static int vr_compare (VArena * X, VArena * R, const VRunCfg * c, OrcExecutor * ex_x, OrcExecutor * ex_r, char *msg, size_t cap)
{
  int i, r, k;
  int rows = c->m;
  for (i = 0; i < VR_NARR; i++) {
    VArr *x, *q;
    if (!X->sh.present[i]) continue;
    x = &X->a[i];
    q = &R->a[i];
    if (X->sh.isdest[i]) {
      for (r = 0; r < rows; r++) {
        unsigned char *rx = x->data + (long) r * x->stride, *rq = q->data + (long) r * q->stride;
        size_t nb = (size_t) c->n * x->esize;
        if (memcmp (rx, rq, nb) && vr_float_mode && X->sh.float_prog && (x->esize == 4 || x->esize == 8)) {
          int lsz = (X->sh.lane[i] == 4 || X->sh.lane[i] == 8) ? X->sh.lane[i] : x->esize;
          /* float programs: NaNs compare equal whatever their sign/payload; a zero where the reference has the smallest
           * normal of the same sign is hardware flush-to-zero acting before rounding (counted, reported once) */
          long e, ne = (long) c->n * (x->esize / lsz);
          int differ = 0;
          for (e = 0; e < ne && !differ; e++) {
            if (lsz == 4) {
              uint32_t g, w; memcpy (&g, rx + 4 * e, 4); memcpy (&w, rq + 4 * e, 4);
              if (g == w) continue;
              if ((g & 0x7f800000u) == 0x7f800000u && (g & 0x7fffffu) && (w & 0x7f800000u) == 0x7f800000u && (w & 0x7fffffu)) continue;
              if (vr_float_mode == 1 && (g & 0x7fffffffu) == 0 && (w & 0x7fffffffu) == 0x00800000u && (g >> 31) == (w >> 31)) { vr_ftz_before_rounding++; continue; }
              if (vr_float_mode == 1 && X->sh.float_minmax && (g & 0x7fffffffu) == 0 && (w & 0x7fffffffu) == 0) continue;
              differ = 1;
            } else {
              uint64_t g, w; memcpy (&g, rx + 8 * e, 8); memcpy (&w, rq + 8 * e, 8);
              if (g == w) continue;
              if ((g & 0x7ff0000000000000ULL) == 0x7ff0000000000000ULL && (g & 0xfffffffffffffULL) && (w & 0x7ff0000000000000ULL) == 0x7ff0000000000000ULL && (w & 0xfffffffffffffULL)) continue;
              if (vr_float_mode == 1 && (g & 0x7fffffffffffffffULL) == 0 && (w & 0x7fffffffffffffffULL) == 0x0010000000000000ULL && (g >> 63) == (w >> 63)) { vr_ftz_before_rounding++; continue; }
              if (vr_float_mode == 1 && X->sh.float_minmax && (g & 0x7fffffffffffffffULL) == 0 && (w & 0x7fffffffffffffffULL) == 0) continue;
              differ = 1;
            }
          }
          if (!differ) continue;
        }
        if (memcmp (rx, rq, nb)) {
          size_t b;
          for (b = 0; b < nb && rx[b] == rq[b]; b++);
          snprintf (msg, cap, "dest %s row %d element %ld differs: got byte 0x%02x want 0x%02x (elem size %d)",
              ex_x->program ? ex_x->program->vars[i].name : "?", r, (long) (b / x->esize), rx[b], rq[b], x->esize);
          return 1;
        }
      }
    }
    /* everything outside entitled destination bytes must be as filled: compare with R at same relative position */
    {
      long lo = x->mem - x->data, hi = (long) x->memlen + lo;	/* byte range relative to data */
      long lo_r = q->mem - q->data, hi_r = (long) q->memlen + lo_r;
      long b;
      if (lo_r > lo) lo = lo_r;
      if (hi_r < hi) hi = hi_r;
      for (b = lo; b < hi; b++) {
        if (x->data[b] == q->data[b]) continue;
        /* inside an entitled dest row? */
        if (X->sh.isdest[i]) {
          int rr, ent = 0;
          for (rr = 0; rr < (rows > 0 ? rows : 0) && !ent; rr++) {
            long st = (long) rr * x->stride;
            if (b >= st && b < st + (long) c->n * x->esize) ent = 1;
          }
          if (ent) continue;	/* already compared */
        }
        snprintf (msg, cap, "%s array %s: byte at offset %ld from element 0 changed outside elements 0..n-1 (0x%02x, reference 0x%02x)",
            X->sh.isdest[i] ? "dest" : "source", ex_x->program ? ex_x->program->vars[i].name : "?", b, x->data[b], q->data[b]);
        return 2;
      }
    }
  }
  if (X->sh.has_acc) {
    for (k = 0; k < 4; k++) {
      /* only accumulators the program declares, at their declared width (a 16-bit accumulator is read back masked) */
      OrcProgram *pp = ex_x->program ? ex_x->program : ex_r->program;
      int asz = pp ? pp->vars[ORC_VAR_A1 + k].size : 4;
      unsigned mask = asz == 2 ? 0xffffu : 0xffffffffu;
      if (pp && (asz == 0 || pp->vars[ORC_VAR_A1 + k].vartype != ORC_VAR_TYPE_ACCUMULATOR)) continue;
      if (((unsigned) ex_x->accumulators[k] & mask) != ((unsigned) ex_r->accumulators[k] & mask)) {
        snprintf (msg, cap, "accumulator %d differs: got 0x%08x want 0x%08x", k, ex_x->accumulators[k], ex_r->accumulators[k]);
        return 3;
      }
      /* the two accessors a caller reads an accumulator with must deliver that value */
      /* (only when the name identifies this accumulator: programs rebuilt from bytecode call every accumulator "a") */
      if (ex_x->program && ex_x->program->vars[ORC_VAR_A1 + k].name &&
          orc_program_find_var_by_name (ex_x->program, ex_x->program->vars[ORC_VAR_A1 + k].name) == ORC_VAR_A1 + k) {
        int by_index = orc_executor_get_accumulator (ex_x, ORC_VAR_A1 + k);
        int by_name = orc_executor_get_accumulator_str (ex_x, ex_x->program->vars[ORC_VAR_A1 + k].name);
        if (by_index != ex_x->accumulators[k] || by_name != ex_x->accumulators[k]) {
          snprintf (msg, cap, "accumulator %d read through the API: orc_executor_get_accumulator gives 0x%08x, orc_executor_get_accumulator_str (\"%s\") gives 0x%08x, the executor holds 0x%08x",
              k, by_index, ex_x->program->vars[ORC_VAR_A1 + k].name, by_name, ex_x->accumulators[k]);
          return 3;
        }
      }
    }
  }
  return 0;
}

#endif
