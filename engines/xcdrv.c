/* xcdrv: driver linked with (a) the C implementation orcc generated for one
 * .orc file, compiled in one build mode (Orc-free -DDISABLE_ORC, or with Orc),
 * (b) the call thunks xcgen emitted for the same file, and (c) liborc for the
 * oracle.  Every generated function is called through its C prototype over an
 * enumerated input space and compared with orc_executor_emulate of the program
 * parsed from the same .orc text.  Run-time modes (JIT, ORC_CODE=backup,
 * ORC_CODE=emulate) are chosen by the environment of the process. */
#include "vrun.h"
#include "xcdrv.h"

extern void v_init (void);

static const char *prop, *mode;
static int thorough;
static long st_funcs, st_calls, st_elems, st_viol, st_nontrivial;
static int nsamples;
static long st_skipped;

#define MAXKEYS 256
static char *seen_keys[MAXKEYS];
static int nseen;
static int key_seen (const char *k)
{
  int i;
  for (i = 0; i < nseen; i++) if (!strcmp (seen_keys[i], k)) return 1;
  if (nseen < MAXKEYS) seen_keys[nseen++] = strdup (k);
  return 0;
}

static const char *opsig (OrcProgram * p)
{
  static char buf[600];
  size_t o = 0;
  int i;
  buf[0] = 0;
  for (i = 0; i < p->n_insns && o < sizeof (buf) - 40; i++) {
    OrcInstruction *in = &p->insns[i];
    o += snprintf (buf + o, sizeof (buf) - o, "%s%s%s", i ? "," : "", (in->flags & 1) ? "x2." : (in->flags & 2) ? "x4." : "", in->opcode->name);
  }
  return buf;
}

static const char *kinds_sig (OrcProgram * p)
{
  static char buf[64];
  size_t o = 0;
  int k;
  OrcInstruction *in = &p->insns[0];
  static const char kc[] = "TSDCPA";
  buf[0] = 0;
  if (p->n_insns < 1) return buf;
  for (k = 0; k < 2; k++) if (in->opcode->dest_size[k]) buf[o++] = kc[p->vars[in->dest_args[k]].vartype];
  buf[o++] = '<';
  for (k = 0; k < 4; k++) if (in->opcode->src_size[k]) {
    OrcVariable *v = &p->vars[in->src_args[k]];
    buf[o++] = kc[v->vartype];
    if (v->vartype == ORC_VAR_TYPE_PARAM) buf[o++] = "ifqd"[v->param_type & 3];
  }
  if (p->is_2d) { buf[o++] = '/'; buf[o++] = '2'; buf[o++] = 'd'; }
  buf[o] = 0;
  return buf;
}

static void report (OrcProgram * p, const char *kind, const VRunCfg * c, const char *msg)
{
  char key[900];
  snprintf (key, sizeof (key), "%s|%s|%s|%s|%s", prop, mode, opsig (p), kinds_sig (p), kind);
  st_viol++;
  if (key_seen (key)) return;
  v_out ("{\"t\":\"viol\",\"key\":\"%s\",\"what\":\"generated C (%s) vs emulation: %s; n=%d m=%d stride_extra=%d flip=0x%x pchoice=%d vbase=%llu; program: %s\","
      "\"replay\":{\"function\":\"%s\",\"mode\":\"%s\",\"program\":\"%s\",\"n\":%d,\"m\":%d,\"stride_extra\":%d,\"pchoice\":%d,\"vbase\":%llu}}",
      v_esc (key), mode, v_esc (msg), c->n, c->m, c->stride_extra, c->flip, c->pchoice, (unsigned long long) c->vbase, v_esc (oprog_oneline (p)),
      p->name, mode, v_esc (oprog_oneline (p)), c->n, c->m, c->stride_extra, c->pchoice, (unsigned long long) c->vbase);
}

static int declared_align (OrcProgram * p, int var)
{
  int a = p->vars[var].alignment;
  return a > 0 ? a : p->vars[var].size;
}

static void set_offsets (OrcProgram * p, VRunCfg * c, int variant)
{
  int i, k = 0;
  for (i = 0; i < VR_NARR; i++) {
    OrcVariable *v = &p->vars[i];
    int al;
    c->off[i] = 0;
    if (!v->size || !v->name || (v->vartype != ORC_VAR_TYPE_DEST && v->vartype != ORC_VAR_TYPE_SRC)) continue;
    al = declared_align (p, i);
    k++;
    c->off[i] = ((variant * (2 * k + 1) * v->size) % 64) / al * al;
  }
}

static int one (OrcProgram * p, const VCallEntry * e, VRunCfg * c, int variant)
{
  VArena X, R;
  OrcExecutor exr, exx;
  VRunCfg c0 = *c;
  VCall call;
  orc_uint64 accbuf[4];
  char msg[400];
  int i, sig, rc;

  memset (c0.off, 0, sizeof (c0.off));
  vr_arena_alloc (&R, p, &c0);
  vr_arena_fill (&R, &c0);
  vr_exec_setup (&exr, p, &R, &c0);
  orc_executor_emulate (&exr);

  set_offsets (p, c, variant);
  vr_arena_alloc (&X, p, c);
  vr_arena_fill (&X, c);
  memset (&call, 0, sizeof (call));
  for (i = 0; i < VR_NARR; i++) if (X.sh.present[i]) { call.arr[i] = X.a[i].data; call.stride[i] = X.a[i].stride; }
  for (i = 0; i < 4; i++) { accbuf[i] = 0x5a5a5a5a5a5a5a5aULL; call.acc[i] = &accbuf[i]; }
  for (i = 0; i < 8; i++) {
    OrcVariable *v = &p->vars[ORC_VAR_P1 + i];
    int64_t val;
    if (!v->size || v->vartype != ORC_VAR_TYPE_PARAM) continue;
    val = vr_param_value (p, ORC_VAR_P1 + i, c->pchoice);
    call.pint[i] = val;
    { uint32_t b = (uint32_t) val; memcpy (&call.pflt[i], &b, 4); }
    memcpy (&call.pdbl[i], &val, 8);
  }
  call.n = c->n;
  call.m = c->m;
  V_CONFINED (e->fn (&call), sig);
  st_calls++;
  st_elems += (long) c->n * (c->m > 0 ? c->m : 0);
  if (sig) {
    snprintf (msg, sizeof (msg), "the generated function raised signal %d (fault address %p)", sig, v_sigaddr);
    report (p, "crash", c, msg);
    vr_arena_free (&X);
    vr_arena_free (&R);
    return 1;
  }
  memset (&exx, 0, sizeof (exx));
  exx.program = p;
  for (i = 0; i < 4; i++) {
    int asz = p->vars[ORC_VAR_A1 + i].size;
    exx.accumulators[i] = asz == 2 ? (int) (accbuf[i] & 0xffff) : (int) (accbuf[i] & 0xffffffffu);
    /* the out-pointer is written with the declared width only */
    if (asz && p->vars[ORC_VAR_A1 + i].vartype == ORC_VAR_TYPE_ACCUMULATOR && !p->vars[ORC_VAR_A1 + i].type_name) {
      uint64_t keep = asz >= 8 ? 0 : (~(uint64_t) 0) << (8 * asz);
      if ((accbuf[i] & keep) != (0x5a5a5a5a5a5a5a5aULL & keep)) {
        snprintf (msg, sizeof (msg), "accumulator out-pointer %d: bytes beyond the declared %d-byte width were written (0x%016llx)", i, asz, (unsigned long long) accbuf[i]);
        report (p, "acc-width", c, msg);
      }
    }
  }
  rc = vr_compare (&X, &R, c, &exx, &exr, msg, sizeof (msg));
  if (rc) report (p, rc == 1 ? "mismatch" : rc == 2 ? "oob" : "acc", c, msg);
  vr_arena_free (&X);
  vr_arena_free (&R);
  return rc;
}

static void explore (OrcProgram * p, const VCallEntry * e, long caseidx)
{
  static const int ns[] = { 0, 1, 2, 3, 4, 5, 7, 8, 9, 15, 16, 17, 31, 33 };
  VRunCfg c;
  int k, bad = 0, have_param = 0, i;
  char key[700];
  st_funcs++;
  snprintf (key, sizeof (key), "%s|%s|%s|%s", prop, mode, opsig (p), kinds_sig (p));
  v_case (caseidx, key, oprog_oneline (p));
  v_watchdog (120);
  for (i = ORC_VAR_P1; i <= ORC_VAR_P8; i++) if (p->vars[i].size) have_param = 1;
  /* 1. n sweep */
  for (k = 0; k < (int) (sizeof (ns) / sizeof (ns[0])) && !bad; k++) {
    memset (&c, 0, sizeof (c));
    c.n = p->constant_n > 0 ? p->constant_n : ns[k];
    if (p->constant_n > 0 && k > 0) break;
    c.m = p->is_2d ? (p->constant_m > 0 ? p->constant_m : 2) : 1;
    c.stride_extra = p->is_2d ? 8 : 0;
    c.pchoice = k % 8;
    c.vbase = (uint64_t) k * 3;
    if (one (p, e, &c, k & 3)) bad = 1;
  }
  /* 2. 2-D shapes */
  if (p->is_2d && p->constant_m <= 0 && !bad) {
    static const int ms[] = { 0, 1, 3 };
    static const int extra[] = { 0, 8, 40 };
    int a, b;
    for (a = 0; a < 3 && !bad; a++) for (b = 0; b < 3 && !bad; b++) {
      memset (&c, 0, sizeof (c));
      c.m = ms[a];
      c.stride_extra = extra[b];
      c.n = p->constant_n > 0 ? p->constant_n : 5;
      c.pchoice = a + b;
      c.vbase = 11 * a + b;
      if (one (p, e, &c, 1)) bad = 1;
    }
    /* bottom-up arrays (negative strides) */
    for (a = 0; a < 3 && !bad; a++) {
      static const unsigned flips[] = { 0xfffu, 0x00fu, 0xff0u };
      memset (&c, 0, sizeof (c));
      c.m = 3;
      c.stride_extra = a == 1 ? 40 : 0;
      c.n = p->constant_n > 0 ? p->constant_n : 5;
      c.pchoice = a;
      c.vbase = 7 + a;
      c.flip = flips[a];
      if (one (p, e, &c, 1)) bad = 1;
    }
  }
  /* 3. value tables: all tuples of the per-size alphabets over the arrays */
  if (!bad && p->constant_n <= 0) {
    uint64_t total = 1;
    int pc, npc;
    VShape sh;
    vr_shape (p, 16, 0, &sh);
    for (i = 0; i < VR_NARR; i++) if (sh.present[i]) {
      uint64_t a = v_alphabet_size (sh.esize[i], sh.isfloat[i]);
      if (total < 70000) total *= a;
    }
    if (total > (thorough ? 70000 : 20000)) total = thorough ? 70000 : 20000;
    /* resampling: start + n * increment has to stay inside the documented 31-bit position range */
    for (i = 0; i < p->n_insns; i++) if (op_is_ldres (p->insns[i].opcode) && total > 3000) total = 3000;
    if (total < 64) total = 64;
    npc = have_param ? (thorough ? 8 : 4) : 1;
    for (pc = 0; pc < npc && !bad; pc++) {
      memset (&c, 0, sizeof (c));
      c.m = 1;
      c.n = (int) total + 5;
      c.pchoice = pc;
      if (one (p, e, &c, pc & 1)) bad = 1;
    }
  }
  if (!bad) st_nontrivial++;
  if (nsamples < 1 && !bad && (st_funcs % 50) == 7) {
    nsamples++;
    v_out ("{\"t\":\"sample\",\"function\":\"%s\",\"mode\":\"%s\",\"program\":\"%s\",\"n_values\":\"0..33 (14 values) + value table\",\"called_through\":\"C prototype\"}",
        p->name, mode, v_esc (oprog_oneline (p)));
  }
}

static char *read_file (const char *fn)
{
  FILE *f = fopen (fn, "rb");
  long n;
  char *b;
  if (!f) return NULL;
  fseek (f, 0, SEEK_END);
  n = ftell (f);
  fseek (f, 0, SEEK_SET);
  b = malloc (n + 1);
  if (fread (b, 1, n, f) != (size_t) n) { fclose (f); free (b); return NULL; }
  b[n] = 0;
  fclose (f);
  return b;
}

static const char *orcfile, *onlyfn;

static void worker (long start, void *user)
{
  char *code;
  OrcProgram **progs = NULL;
  int n, i, k;
  (void) user;
  orc_init ();
  v_ops_init ();
  v_install_handlers ();
  v_init ();			/* the generated init function, when orcc was asked for one */
  code = read_file (orcfile);
  if (!code) { v_out ("{\"t\":\"viol\",\"key\":\"%s|harness|no-orc-file\",\"what\":\"cannot read %s\",\"replay\":{}}", prop, orcfile); return; }
  n = orc_parse (code, &progs);
  for (k = 0; v_calls[k].name; k++) {
    if (k < start) continue;
    if (onlyfn && strcmp (onlyfn, v_calls[k].name)) continue;
    for (i = 0; i < n; i++) if (!strcmp (progs[i]->name, v_calls[k].name)) break;
    if (i == n) { v_out ("{\"t\":\"viol\",\"key\":\"%s|harness|missing-program\",\"what\":\"no parsed program named %s\",\"replay\":{}}", prop, v_calls[k].name); continue; }
    orc_program_compile (progs[i]);	/* emulation needs the compiled program record */
    if (vr_float_mode == 2) {
      /* which NaN (sign, payload) a float operation yields for NaN operands is the C compiler's choice; in a chain that
       * NaN feeds further instructions (convfl maps it by its sign, swapq moves the sign bit into data), so programs of
       * more than one instruction with float operations run on finite inputs - NaNs then only arise as the default NaN
       * of an invalid operation, which is the same in every compilation */
      int q, isf = 0;
      for (q = 0; q < progs[i]->n_insns; q++) if (op_is_float (progs[i]->insns[q].opcode)) isf = 1;
      v_finite_only = isf && progs[i]->n_insns > 1;
    }
    if (!progs[i]->orccode) { st_skipped++; continue; }
    explore (progs[i], &v_calls[k], k);
  }
  v_out ("{\"t\":\"stat\",\"functions\":%d,\"functions_equal\":%ld,\"calls\":%ld,\"elements\":%ld,\"violations_raw\":%ld,\"skipped_not_compilable\":%ld}", (int) st_funcs, st_nontrivial, st_calls, st_elems, st_viol, st_skipped);
}

int main (int argc, char **argv)
{
  orcfile = v_arg (argc, argv, "--orc", NULL);
  prop = v_arg (argc, argv, "--prop", "C04");
  mode = v_arg (argc, argv, "--mode", "noorc");
  onlyfn = v_arg (argc, argv, "--only", NULL);
  thorough = !strcmp (v_arg (argc, argv, "--tier", "quick"), "thorough");
  if (!strcmp (v_arg (argc, argv, "--floatmode", "exact"), "tolerant")) { vr_float_mode = 1; v_finite_only = 1; }
  /* the same C expression compiled twice may quiet or propagate a NaN differently (x*1.0f folded to x, operands of a
   * commutative operation swapped): NaN results compare equal whatever their sign and payload */
  if (!strcmp (v_arg (argc, argv, "--floatmode", "exact"), "nan")) vr_float_mode = 2;
  v_supervise (worker, NULL, prop);
  return 0;
}
