/* xmem: a program touches only the elements it is entitled to (C03).
 * Every array lives in its own mapping: per row one read/write page between
 * two PROT_NONE pages (stride 8192, so 2-D gaps are unmapped).  For every
 * program x target x n x placement the data is put flush after the leading
 * guard page or flush before the trailing one, with exactly the entitled
 * number of elements (read sets of loadoff/loadup/ldres from the opcode
 * definitions).  Sources are mapped read-only.  Native code (avx, sse, mmx)
 * and emulation are run; any fault, any changed byte of the dest page outside
 * elements 0..n-1 is a violation. */
#include "pgen.h"
#include "vrun.h"

#define PG 4096
#define MAXROWS 3

typedef struct { unsigned char *base; int rows; } Region;
static Region reg[VR_NARR];

static int shard, nshards, thorough;
static long st_straddle;
static long g_idx, st_programs, st_runs, st_viol, st_compiled, st_emul;
static VTarget targets[8];
static int ntargets, nsamples;
static char *seen[400];
static int nseen;

static void regions_init (void)
{
  int i, r;
  for (i = 0; i < VR_NARR; i++) {
    reg[i].rows = MAXROWS;
    /* every region straddles a multiple of 4 GiB: the boundary lies between row 0 and row 1, so the step from the first
     * row to the second (either direction) carries into / borrows from the high half of the row pointer, and the
     * step between rows 1 and 2 does not */
    reg[i].base = MAP_FAILED;
#ifdef MAP_FIXED_NOREPLACE
    if (sizeof (void *) == 8) {
      int k;
      for (k = 0; k < 4 && reg[i].base == MAP_FAILED; k++)
        reg[i].base = mmap ((void *) ((((uintptr_t) 0x20 + 0x40 * k + i) << 32) - 2 * PG), (2 * MAXROWS + 1) * PG, PROT_NONE, MAP_PRIVATE | MAP_ANONYMOUS | MAP_FIXED_NOREPLACE, -1, 0);
    }
#endif
    if (reg[i].base != MAP_FAILED && (((uintptr_t) reg[i].base + 2 * PG) & 0xffffffffu) == 0) st_straddle++;
    else {
      if (reg[i].base != MAP_FAILED) munmap (reg[i].base, (2 * MAXROWS + 1) * PG);
      reg[i].base = mmap (NULL, (2 * MAXROWS + 1) * PG, PROT_NONE, MAP_PRIVATE | MAP_ANONYMOUS, -1, 0);
    }
    for (r = 0; r < MAXROWS; r++) mprotect (reg[i].base + PG * (1 + 2 * r), PG, PROT_READ | PROT_WRITE);
  }
}
static void region_protect (int i, int prot)
{
  int r;
  for (r = 0; r < MAXROWS; r++) mprotect (reg[i].base + PG * (1 + 2 * r), PG, prot);
}

static const char *opsig (OrcProgram * p)
{
  static char buf[300];
  size_t o = 0;
  int i;
  buf[0] = 0;
  for (i = 0; i < p->n_insns && i < 4 && o < sizeof (buf) - 40; i++)
    o += snprintf (buf + o, sizeof (buf) - o, "%s%s%s", i ? "," : "", (p->insns[i].flags & 1) ? "x2." : (p->insns[i].flags & 2) ? "x4." : "", p->insns[i].opcode->name);
  if (p->n_insns > 4) snprintf (buf + o, sizeof (buf) - o, ",+%d", p->n_insns - 4);
  return buf;
}

static void viol (OrcProgram * p, const char *path, const char *cls, const char *msg, const char *text, const VRunCfg * c, int placement)
{
  char key[500];
  int i;
  st_viol++;
  snprintf (key, sizeof (key), "C03|%s|%s|%s%s", cls, path, opsig (p), p->is_2d ? "/2d" : "");
  for (i = 0; i < nseen; i++) if (!strcmp (seen[i], key)) return;
  if (nseen < 400) seen[nseen++] = strdup (key);
  v_out ("{\"t\":\"viol\",\"key\":\"%s\",\"what\":\"%s: %s; n=%d m=%d placement=%s pchoice=%d; program: %s\",\"replay\":{\"program\":\"%s\",\"path\":\"%s\",\"n\":%d,\"m\":%d,\"placement\":\"%s\",\"pchoice\":%d}}",
      v_esc (key), path, v_esc (msg), c->n, c->m, placement ? "flush-before-trailing-guard" : "flush-after-leading-guard", c->pchoice,
      v_esc (text ? text : oprog_oneline (p)), v_esc (text ? text : oprog_oneline (p)), path, c->n, c->m, placement ? "trail" : "lead", c->pchoice);
}

/* exact entitlement (elements from index 0, and elements before index 0) */
static void entitlement (OrcProgram * p, int n, int pchoice, VShape * sh)
{
  int i;
  vr_shape (p, n, pchoice, sh);
  for (i = 0; i < p->n_insns; i++) {
    OrcInstruction *in = &p->insns[i];
    OrcStaticOpcode *o = in->opcode;
    int a = in->src_args[0], known;
    if (a < 0 || a >= VR_NARR || !sh->present[a]) continue;
    if (!strcmp (o->name, "loadupib")) {
      long need = n > 0 ? ((n - 1) >> 1) + 1 + (((n - 1) & 1) ? 1 : 0) : 0;
      sh->need[a] = need > n / 2 ? need : sh->need[a];
      if (n > 0) sh->need[a] = need;
    } else if (!strcmp (o->name, "loadupdb")) {
      sh->need[a] = n > 0 ? ((n - 1) >> 1) + 1 : 0;
    } else if (op_is_ldres (o)) {
      int64_t st = vr_src_scalar (p, in->src_args[1], pchoice, &known);
      int64_t inc = vr_src_scalar (p, in->src_args[2], pchoice, &known);
      int lin = !strncmp (o->name, "ldreslin", 8);
      sh->need[a] = n > 0 ? (long) (((st + (int64_t) (n - 1) * inc) >> 16) + (lin ? 2 : 1)) : 0;
    }
  }
}

static void fill_region (int i, int isfloat, int esize)
{
  /* address-based pattern over all data pages (position independent, so data can move with n) */
  int r;
  long k;
  for (r = 0; r < MAXROWS; r++) {
    unsigned char *pg = reg[i].base + PG * (1 + 2 * r);
    for (k = 0; k < PG / esize; k++) vr_store (pg + k * esize, esize, v_value (esize, isfloat, i % 3, (uint64_t) (k + r * 131)));
  }
}

static unsigned char destcopy[VR_NARR][MAXROWS][PG];

static int run_one (OrcProgram * p, const char *path, int native, const VRunCfg * c, int placement, const char *text)
{
  VArena A;
  OrcExecutor ex;
  int i, r, sig;
  char msg[300];
  unsigned char *base0[VR_NARR];	/* element 0 of the row that is first in memory */
  memset (&A, 0, sizeof (A));
  entitlement (p, c->n, c->pchoice, &A.sh);
  for (i = 0; i < VR_NARR; i++) {
    long bytes, front;
    if (!A.sh.present[i]) continue;
    bytes = (A.sh.need[i] + A.sh.front[i]) * A.sh.esize[i];
    front = A.sh.front[i] * A.sh.esize[i];
    if (bytes > PG) return 0;	/* outside this harness' row size */
    A.a[i].esize = A.sh.esize[i];
    A.a[i].stride = 2 * PG;
    A.a[i].m = c->m;
    if (placement == 0) A.a[i].data = reg[i].base + PG + front;
    else {
      int al = p->vars[i].alignment > A.sh.esize[i] ? p->vars[i].alignment : A.sh.esize[i];
      A.a[i].data = reg[i].base + 2 * PG - bytes + front;
      /* honour a declared alignment: move down to the boundary (the last entitled byte is then not flush; stated in the evidence) */
      A.a[i].data -= ((uintptr_t) A.a[i].data) % al;
      if (A.a[i].data - front < reg[i].base + PG) return 0;
    }
  }
  for (i = 0; i < VR_NARR; i++) if (A.sh.present[i]) {
    base0[i] = A.a[i].data;
    if ((c->flip >> i & 1) && c->m > 1) {	/* bottom-up: row 0 is the last row in memory, negative stride */
      A.a[i].data += (long) (c->m - 1) * 2 * PG;
      A.a[i].stride = -2 * PG;
    }
  }
  /* destinations: refill their pages (canary outside, pattern inside); sources are filled once per program and read-only */
  for (i = 0; i < VR_NARR; i++) if (A.sh.present[i] && A.sh.isdest[i]) {
    for (r = 0; r < MAXROWS; r++) memset (reg[i].base + PG * (1 + 2 * r), V_CANARY, PG);
    for (r = 0; r < c->m; r++) {
      long k;
      for (k = 0; k < A.sh.need[i]; k++) vr_store (base0[i] + (long) r * 2 * PG + k * A.sh.esize[i], A.sh.esize[i], v_value (A.sh.esize[i], A.sh.isfloat[i], 2, (uint64_t) (k + r * 17)));
    }
    for (r = 0; r < MAXROWS; r++) memcpy (destcopy[i][r], reg[i].base + PG * (1 + 2 * r), PG);
  }
  vr_exec_setup (&ex, p, &A, c);
  if (native) { V_CONFINED (orc_executor_run (&ex), sig); }
  else { V_CONFINED (orc_executor_emulate (&ex), sig); st_emul++; }
  st_runs++;
  if (sig) {
    /* attribute the fault address to an array */
    const char *which = "outside every array region";
    char wbuf[120];
    for (i = 0; i < VR_NARR; i++) if (A.sh.present[i] && (unsigned char *) v_sigaddr >= reg[i].base && (unsigned char *) v_sigaddr < reg[i].base + (2 * MAXROWS + 1) * PG) {
      long off = (unsigned char *) v_sigaddr - base0[i];
      snprintf (wbuf, sizeof (wbuf), "%s array %s at byte offset %ld from element 0 of the first row in memory (entitled: %ld elements of %d bytes per row%s)", A.sh.isdest[i] ? "destination" : "source (read-only)",
          p->vars[i].name, off, A.sh.need[i], A.sh.esize[i], A.sh.front[i] ? ", plus leading elements" : "");
      which = wbuf;
    }
    snprintf (msg, sizeof (msg), "signal %d accessing %s", sig, which);
    viol (p, path, sig == SIGSEGV || sig == SIGBUS ? "fault" : "signal", msg, text, c, placement);
    return 1;
  }
  /* bytes of the destination pages outside elements 0..n-1 of rows 0..m-1 must be unchanged */
  for (i = 0; i < VR_NARR; i++) if (A.sh.present[i] && A.sh.isdest[i]) {
    for (r = 0; r < MAXROWS; r++) {
      unsigned char *pg = reg[i].base + PG * (1 + 2 * r);
      long lo = -1, hi = -1, b;
      if (r < c->m) { lo = (base0[i] + (long) r * 2 * PG) - pg; hi = lo + (long) c->n * A.sh.esize[i]; }
      for (b = 0; b < PG; b++) {
        if (b >= lo && b < hi) continue;
        if (pg[b] != destcopy[i][r][b]) {
          snprintf (msg, sizeof (msg), "destination %s row %d: byte at offset %ld from element 0 changed although only elements 0..%d may be written", p->vars[i].name, r, b - lo, c->n - 1);
          viol (p, path, "write-outside", msg, text, c, placement);
          return 1;
        }
      }
    }
  }
  return 0;
}

/* runs p; the element counts, row counts and with them the entitlement come from `shape` (p itself, or the program p
 * was rebuilt from) */
static void explore_as (OrcProgram * p, OrcProgram * shape, const char *text, long idx)
{
  int ti, i;
  VShape sh0;
  char key[300];
  st_programs++;
  vr_shape (p, 16, 0, &sh0);
  for (i = 0; i < VR_NARR; i++) if (sh0.present[i]) { region_protect (i, PROT_READ | PROT_WRITE); fill_region (i, sh0.isfloat[i], sh0.esize[i]); if (!sh0.isdest[i]) region_protect (i, PROT_READ); }
  for (ti = 0; ti <= ntargets; ti++) {
    /* ti == ntargets: emulation (on the code object of the last successful compile, or an emulation-only compile) */
    const char *path = ti < ntargets ? targets[ti].name : "emulation";
    int native = ti < ntargets, regsize, sz = 8, V, N, n, pl, bad = 0;
    OrcCompileResult r;
    snprintf (key, sizeof (key), "C03|crash|%s|%s", path, opsig (p));
    v_case (idx, key, text ? text : oprog_oneline (p));
    v_watchdog (60);
    orc_program_reset (p);
    if (native) r = orc_program_compile_full (p, targets[ti].target, targets[ti].flags);
    else r = orc_program_compile_for_target (p, NULL);
    if (native && !ORC_COMPILE_RESULT_IS_SUCCESSFUL (r)) continue;
    if (!native && (ORC_COMPILE_RESULT_IS_FATAL (r) || !p->orccode)) continue;
    st_compiled++;
    regsize = !native ? 16 : !strncmp (path, "avx", 3) ? 32 : !strncmp (path, "sse", 3) ? 16 : 8;
    for (i = 0; i < VR_NARR; i++) if (sh0.present[i] && sh0.esize[i] < sz) sz = sh0.esize[i];
    V = regsize / sz;
    N = (thorough ? 4 : 2) * V * 2 + 3;
    if (!native) N = 35;
    for (n = (shape->constant_n > 0 ? shape->constant_n : 0); n <= (shape->constant_n > 0 ? shape->constant_n : N) && !bad; n++) {
      for (pl = 0; pl < 2 && !bad; pl++) {
        VRunCfg c;
        int mi, pc;
        for (mi = 0; mi < (shape->is_2d && shape->constant_m <= 0 ? 3 : 1) && !bad; mi++) for (pc = 0; pc < ((n % 7) == 3 ? 5 : 1) && !bad; pc++) {
          memset (&c, 0, sizeof (c));
          c.n = n;
          c.m = shape->is_2d ? (shape->constant_m > 0 ? shape->constant_m : mi + 1) : 1;
          if (c.m > MAXROWS) continue;
          c.pchoice = (n + pc) % 5;
          bad = run_one (p, path, native, &c, pl, text);
          /* the same rows walked bottom-up (negative strides): all arrays, and destinations only */
          if (!bad && c.m > 1 && pc == 0 && (n % 3) == 1) {
            c.flip = 0xfffu;
            bad = run_one (p, path, native, &c, pl, text);
            if (!bad) { c.flip = 0x00fu; bad = run_one (p, path, native, &c, pl, text); }
          }
        }
      }
    }
    if (nsamples < 3 && (idx % 1999) == 4 && !bad) { nsamples++; v_out ("{\"t\":\"sample\",\"program\":\"%s\",\"path\":\"%s\",\"n_range\":[0,%d],\"placements\":[\"lead\",\"trail\"]}", v_esc (text ? text : oprog_oneline (p)), path, N); }
  }
}

static void explore (OrcProgram * p, const char *text, long idx) { explore_as (p, p, text, idx); }

static void on_prog (VProg * vp, void *user)
{
  long idx = g_idx++;
  char text[4096];
  OrcProgram *p;
  if (idx < *(long *) user || (idx % nshards) != shard) return;
  vprog_text (vp, text, sizeof (text));
  p = vprog_build (vp);
  explore (p, text, idx);
  /* the form in which generated wrappers carry a program: rebuilt from its bytecode.  Only for programs whose shape
   * (2-D, constant n or m) the bytecode has to carry; the entitlement is that of the original program. */
  if (p->is_2d || p->constant_n || p->constant_m) {
    OrcBytecode *bc = orc_bytecode_from_program (p);
    OrcProgram *q = orc_program_new_from_static_bytecode (bc->bytecode);
    if (q) {
      char t2[4200];
      snprintf (t2, sizeof (t2), "%s[rebuilt from bytecode]", text);
      /* the rebuilt program is run on the shapes of the original: what it may touch is defined by the program the
       * user wrote */
      explore_as (q, p, t2, idx);
      orc_program_free (q);
    }
    orc_bytecode_free (bc);
  }
  orc_program_free (p);
}

static const char *g_levels, *g_corpus;
static void worker (long start, void *user)
{
  (void) user;
  g_idx = 0;
  orc_init ();
  v_ops_init ();
  v_install_handlers ();
  ntargets = v_get_targets (targets, "avx,sse,mmx");
  {
    /* reduced feature sets select other load/store rules (pinsrw instead of pinsrb, ...): their memory accesses are
     * entitled to the same elements */
    int k, n0 = ntargets;
    for (k = 0; k < n0; k++) {
      if (!strcmp (targets[k].name, "sse")) {
        targets[ntargets] = targets[k]; targets[ntargets].flags &= ~(unsigned) (ORC_TARGET_SSE_SSE4_1 | ORC_TARGET_SSE_SSE4_2); targets[ntargets].name = "sse/no-sse4.1"; ntargets++;
        targets[ntargets] = targets[k]; targets[ntargets].flags &= ~(unsigned) (ORC_TARGET_SSE_SSE3 | ORC_TARGET_SSE_SSSE3 | ORC_TARGET_SSE_SSE4_1 | ORC_TARGET_SSE_SSE4_2); targets[ntargets].name = "sse/sse2-only"; ntargets++;
      } else if (!strcmp (targets[k].name, "mmx")) {
        targets[ntargets] = targets[k]; targets[ntargets].flags &= ~(unsigned) (ORC_TARGET_MMX_SSSE3 | ORC_TARGET_MMX_SSE4_1 | ORC_TARGET_MMX_SSE4_2); targets[ntargets].name = "mmx/mmxext-only"; ntargets++;
      }
    }
  }
  regions_init ();
  if (strstr (g_levels, "L1")) pgen_L1 (on_prog, &start, PG_INT | PG_FLOAT);
  if (strstr (g_levels, "L2")) pgen_L2 (on_prog, &start, PG_INT);
  if (strstr (g_levels, "L3")) pgen_L3 (on_prog, &start, PG_INT);
  if (strstr (g_levels, "L5")) pgen_L5 (on_prog, &start);
  if (strstr (g_levels, "L6")) pgen_L6 (on_prog, &start, PG_INT | PG_FLOAT);
  if (strstr (g_levels, "L4") && g_corpus) {
    char buf[2048], *fn, *save;
    strncpy (buf, g_corpus, sizeof (buf) - 1); buf[sizeof (buf) - 1] = 0;
    for (fn = strtok_r (buf, ":", &save); fn; fn = strtok_r (NULL, ":", &save)) {
      FILE *f = fopen (fn, "rb");
      static char code[1 << 20];
      size_t n;
      OrcProgram **progs = NULL;
      int np, i;
      if (!f) continue;
      n = fread (code, 1, sizeof (code) - 1, f); code[n] = 0; fclose (f);
      np = orc_parse (code, &progs);
      for (i = 0; i < np; i++) { long idx = g_idx++; if (idx >= start && (idx % nshards) == shard) explore (progs[i], NULL, idx); }
    }
  }
  v_out ("{\"t\":\"stat\",\"programs\":%ld,\"compiled\":%ld,\"runs\":%ld,\"emulation_runs\":%ld,\"violations_raw\":%ld,\"regions_across_4GiB\":%ld}", st_programs, st_compiled, st_runs, st_emul, st_viol, st_straddle);
  v_out ("{\"t\":\"max\",\"space_size\":%ld}", g_idx);
}

int main (int argc, char **argv)
{
  shard = v_argi (argc, argv, "--shard", 0);
  nshards = v_argi (argc, argv, "--nshards", 1);
  thorough = !strcmp (v_arg (argc, argv, "--tier", "quick"), "thorough");
  g_levels = v_arg (argc, argv, "--levels", "L1");
  g_corpus = v_arg (argc, argv, "--corpus", NULL);
  v_supervise (worker, NULL, "C03");
  return 0;
}
