"""C19 - default target selection.  Exhaustive enumeration of CPU configuration
vectors (12 feature inputs x vendor x max leaf x override variable/value x
ORC_CODE knock-outs) presented through the cpuid/xgetbv hooks, one forked
process per vector, against a pure-function model of the property."""
import shutil
import vlib


def run(ctx):
    tier = ctx["tier"]
    exe = vlib.build_engine("xcpu", "plain")
    scratch = vlib.scratch_dir("C19")
    env = vlib.scrub_env(scratch=scratch)
    nsh = vlib.NCPU * 2
    deadline = ctx["deadline"] or (300 if tier == "quick" else 1500)
    args = [["--tier", tier, "--shard", i, "--nshards", nsh] for i in range(nsh)]
    res = vlib.run_shards(exe, args, env, timeout=deadline, label="xcpu")
    shutil.rmtree(scratch, ignore_errors=True)
    st = res.stats
    n = int(st.get("vectors", 0))
    cov = {
        "states": n,
        "transitions": n,
        "traces_validated_against_impl": n,
        "samples": res.samples or [{"note": "none"}],
        "consistent_vectors": int(st.get("consistent", 0)),
        "space": "feature subsets of {MMX,SSE2,SSE3,SSSE3,SSE4.1,SSE4.2,XSAVE,OSXSAVE,AVX,AVX2,XCR0.XMM,XCR0.YMM} (all 4096) x "
                 + ("vendor Intel x max basic leaf {13,4}" if tier == "quick" else "vendor {Intel,AMD,other} x max basic leaf {13,4,1,0} x ORC_CODE {none,-avx2,-sse2}")
                 + " x override {unset, ORC_TARGET=v, ORC_BACKEND=v : v in mmx,sse,avx,c,neon,bogus,(empty string)}",
        "model": "mmx<=>MMX; sse<=>SSE2; avx<=>AVX&AVX2(leaf>=7)&XSAVE&OSXSAVE&XCR0.XMM&XCR0.YMM; default = most capable executable; "
                 "flags subset of presented features; safety obligations on all vectors, selection obligations on architecturally consistent vectors",
        "exhaustive": not res.incomplete,
        "notes": res.notes[:5],
    }
    assumptions = ["cpuid/xgetbv answers come from the hook (orc_verif_cpuid_hook), cpuid leaves above the maximum answer like Intel (highest basic leaf) "
                   "or zero (others)", "each vector runs in a fresh process so init-once state cannot leak between vectors",
                   "the documented override variable is ORC_TARGET (doc/running.xml)"]
    return "model_checking", cov, assumptions, res.viol


def replay(rep):
    import subprocess
    exe = vlib.build_engine("xcpu", "plain")
    r = rep["replay"]
    # re-enumerate to find the index is unnecessary: run thorough tier in one shard filtered by key
    p = subprocess.run([exe, "--tier", "thorough"], stdout=subprocess.PIPE, env=vlib.scrub_env(), timeout=3000)
    bad = [l for l in p.stdout.decode().splitlines() if '"t":"viol"' in l and rep["key"] in l]
    print("\n".join(b[:500] for b in bad[:3]) if bad else "not reproduced")
    return 1 if bad else 0
