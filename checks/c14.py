"""C14 - the .orc parser is total.  Exhaustive enumeration (engine xparse, ASan+UBSan build) of
line sequences over a line alphabet, limit files, and all short byte strings."""
import os
import shutil
import subprocess

import vlib


def run(ctx):
    tier = ctx["tier"]
    exe = vlib.build_engine("xparse", "asan")
    scratch = vlib.scratch_dir("C14")
    env = vlib.scrub_env(scratch=scratch)
    deadline = ctx["deadline"] or (300 if tier == "quick" else 1500)
    nsh = vlib.NCPU * 2
    L, K = (3, 5) if tier == "quick" else (3, 7)
    T = 3 if tier == "quick" else 5
    res = vlib.Results()
    for space, maxlen in ((2, 0), (4, T), (1, L), (3, K)):
        n = 4 if space == 2 else nsh
        args = [["--space", space, "--maxlen", maxlen, "--shard", i, "--nshards", n, "--deadline", int(deadline)] for i in range(n)]
        vlib.run_shards(exe, args, env, timeout=deadline * 1.5 + 120, res=res, label="xparse")
    shutil.rmtree(scratch, ignore_errors=True)
    st = res.stats
    cov = {
        "evaluations": int(st.get("cases", 0)),
        "distinct_nontrivial": int(st.get("cases", 0)) - 1,
        "rule": "every input of four spaces is parsed with orc_parse_code; all inputs are distinct by construction (enumerated by index); "
                "non-trivial = everything except the empty string. Space 1: all sequences of 1..%d lines over a %d-line alphabet (every "
                "directive with missing/extra/17+ tokens, opcodes with too few/many operands, literal spellings, x2/x4 alone, unknown names, "
                "comments, blanks) x {LF, CRLF, no final newline} x {preceded by an open function or not}. Space 2: limit files (99..300 "
                "instructions, each variable class at limit-1..limit+2, 7..12 literals, 15..200 tokens per line, 10k-character tokens, "
                "1..200 errors, 100 functions). Space 3: all strings of length <= %d over the bytes . x 2 4 a 0 - , # space tab LF CR. Space 4: every token of length <= %d over "
                "- + 0 1 9 x . e l L a in each of 15 places where the parser converts a token to a number (constant values of size 2/4/8, "
                "literal operands of int/float/double/64-bit opcodes, variable sizes, alignment, .n/.n mult/.n min/.n max/.m values)."
                % (L, 60, K, T),
        "samples": res.samples or [{"note": "none"}],
        "programs_returned_compiled_and_freed": int(st.get("compiled", 0)),
        "error_records_checked": int(st.get("error_records", 0)),
        "malformed_line_expectations": int(st.get("malformed_line_expectations", 0)),
        "exhaustive": not res.incomplete,
        "notes": res.notes[:8],
    }
    assumptions = ["AddressSanitizer/UBSan (gcc) as memory-safety monitor inside each enumerated case", "intra-object overflows are caught "
                   "through their consequences (crash on free/compile) or not at all", "error line numbers are 1-based physical lines split at LF"]
    return "exploration", cov, assumptions, res.viol


def replay(rep):
    exe = vlib.build_engine("xparse", "asan")
    scratch = vlib.scratch_dir("C14r")
    fn = os.path.join(scratch, "in.orc")
    text = rep["replay"].get("text") or rep["replay"].get("desc") or ""
    open(fn, "w").write(text)
    p = subprocess.run([exe, "--replay-file", fn], stdout=subprocess.PIPE, stderr=subprocess.STDOUT, env=vlib.scrub_env(scratch=scratch), timeout=120)
    shutil.rmtree(scratch, ignore_errors=True)
    out = p.stdout.decode()
    bad = p.returncode != 0 or '"t":"viol"' in out
    print(out[-1500:])
    return 1 if bad else 0
