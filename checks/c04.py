"""C04 - the C source Orc generates computes what emulation computes.
S-prog x S-in: every program of the enumerated levels is written as .orc text,
run through orcc, and the generated C is compiled by gcc in the Orc-free form
(-DDISABLE_ORC: bare prototype-based bodies) at -O0 and -O2 and in the
executor-based backup form (ORC_CODE=backup), called through the generated C
prototype over an enumerated input space and compared byte for byte with
orc_executor_emulate.  Second obligation: tools/generate-emulation built from
the working tree reproduces orc/orcemulateopcodes.{c,h} exactly."""
import os
import shutil
import subprocess

import vlib
import vcgen
from c01 import CORPUS


def regen_check(scratch):
    """opcode form: regenerate the emulator and diff with the checked-in copy."""
    viols = []
    exe = vlib.build_tool("generate-emulation")
    info = {}
    for args, ref in (([], "orcemulateopcodes.c"), (["--header"], "orcemulateopcodes.h")):
        out = os.path.join(scratch, "regen_" + ref)
        r = subprocess.run([exe] + args + ["-o", out], stdout=subprocess.PIPE, stderr=subprocess.STDOUT, timeout=300)
        a = open(out, "rb").read() if os.path.exists(out) else b""
        b = open(os.path.join(vlib.REPO, "orc", ref), "rb").read()
        info[ref] = {"bytes": len(b), "identical": a == b}
        if a != b:
            al, bl = a.decode(errors="replace").splitlines(), b.decode(errors="replace").splitlines()
            k = 0
            while k < len(al) and k < len(bl) and al[k] == bl[k]:
                k += 1
            fn = "?"
            for j in range(min(k, len(bl) - 1), -1, -1):
                if bl[j].startswith("emulate_") or bl[j].startswith("void emulate_"):
                    fn = bl[j].split("(")[0].split()[-1]
                    break
            viols.append({"t": "viol", "key": "C04|regen|%s|%s" % (ref, fn),
                          "what": "tools/generate-emulation output differs from checked-in orc/%s at line %d (in %s): generated `%s` vs checked-in `%s`"
                                  % (ref, k + 1, fn, al[k] if k < len(al) else "<eof>", bl[k] if k < len(bl) else "<eof>"),
                          "replay": {"file": ref, "line": k + 1}})
    return viols, info


def run(ctx):
    tier = ctx["tier"]
    scratch = vlib.scratch_dir("C04")
    env = vlib.scrub_env(scratch=scratch)
    res = vlib.Results()
    viols, regen = regen_check(scratch)
    corpus = [os.path.join(vlib.REPO, f) for f in CORPUS if os.path.exists(os.path.join(vlib.REPO, f))]
    if tier == "quick":
        plans = [("L1,L5,LB,LL,LW", 64, 1, 1)]		# levels, shards, noalign, stride
        builds = [("noorc", "-O2", [("noorc-O2", None, "nan")]), ("noorc", "-O0", [("noorc-O0", None, "nan")]),
                  ("orc", "-O2", [("backup-O2", "backup", "nan")])]
    else:
        plans = [("L1,L5,LB,LL,LW", 96, 0, 1), ("L2", 192, 0, 4), ("L3", 64, 0, 2)]
        builds = [("noorc", "-O2", [("noorc-O2", None, "nan")]), ("noorc", "-O0", [("noorc-O0", None, "nan")]),
                  ("orc", "-O2", [("backup-O2", "backup", "nan")]), ("orc", "-O0", [("backup-O0", "backup", "nan")]),
                  ("noorc", "clang:-O2", [("noorc-clang-O2", None, "nan")]), ("orc", "clang:-O1", [("backup-clang-O1", "backup", "nan")])]
    space = 0
    nfun = 0
    tot = {"builds": 0, "runs": 0}
    for pi, (levels, nsh, noalign, stride) in enumerate(plans):
        d = os.path.join(scratch, "p%d" % pi)
        os.makedirs(d)
        units, sp, nf = vcgen.emit_units(d, levels, nsh, noalign=noalign, corpus=corpus if pi == 0 else (), stride=stride)
        space += sp
        nfun += nf
        jobs = [{"unit": u, "variant": "default", "builds": builds, "prop": "C04", "env": env, "tier": tier} for u in units]
        t, v = vcgen.run_jobs(jobs, res)
        viols += v
        for k in tot:
            tot[k] += t[k]
        shutil.rmtree(d, ignore_errors=True)
    shutil.rmtree(scratch, ignore_errors=True)
    st = res.stats
    cov = {
        "evaluations": int(st.get("calls", 0)),
        "distinct_nontrivial": int(st.get("functions_equal", 0)),
        "rule": "every program of the levels %s (quick: declared-alignment variants left out - alignment does not reach the C generator; thorough: "
                "all, plus every 4th L2 shard and every 2nd L3 shard) and the .orc corpus is printed as .orc text, passed through orcc "
                "--implementation/--header and compiled with gcc in forms {bare prototype-based body (-DDISABLE_ORC) at -O0 and -O2, "
                "executor-based backup body reached with ORC_CODE=backup}; every generated function is called through its prototype for "
                "n in {0..5,7,8,9,15,16,17,31,33}, 2-D shapes m in {0,1,2,3} x stride gaps {0,8,40}, all parameter values of the per-type domains "
                "(int, float, int64, double), and value tables holding all tuples of the per-size alphabets; destination bytes, bytes outside "
                "the destinations and accumulator out-values are compared with orc_executor_emulate. A function counts as non-trivial when "
                "every comparison of one (function, form) ran and agreed." % ", ".join(p[0] for p in plans),
        "samples": (res.samples[:6] or [{"note": "none"}]) + [{"emulator_regeneration": regen}],
        "functions_generated": nfun,
        "function_form_pairs": int(st.get("functions", 0)),
        "gcc_builds": tot["builds"],
        "driver_runs": tot["runs"],
        "elements_compared": int(st.get("elements", 0)),
        "skipped_not_compilable": int(st.get("skipped_not_compilable", 0)),
        "emulator_regeneration": regen,
        "program_space_size": space,
        "exhaustive": not res.incomplete,
        "notes": res.notes[:10],
    }
    assumptions = [
        "gcc 12 on x86-64 at -O0 and -O2 (thorough: also clang 14 at -O2/-O1) with default flags is the C compiler; emulation is the oracle (its meaning is C02's subject)",
        "float results are compared bit for bit except that a NaN equals a NaN of any sign/payload: which NaN a C expression yields is the "
        "C compiler's choice (gcc folds x*1.0f to x, swaps operands of commutative operations), not the generator's",
        "32/64-bit lanes use boundary alphabets, not all values",
    ]
    return "exploration", cov, assumptions, viols + res.viol


def replay(rep):
    """Regenerate the named function's unit and re-run the recorded form."""
    r = rep["replay"]
    scratch = vlib.scratch_dir("C04r")
    env = vlib.scrub_env(scratch=scratch)
    if "file" in r:
        v, _ = regen_check(scratch)
        shutil.rmtree(scratch, ignore_errors=True)
        for x in v:
            print(x["what"])
        return 1 if v else 0
    fn = r.get("function", "")
    mode = r.get("mode", "default/noorc-O2")
    variant, _, label = mode.partition("/")
    bad = 0
    if fn.startswith("vL"):
        lv = fn[1:3] if fn[2].isdigit() else "L5"
        units, _, _ = vcgen.emit_units(scratch, "L5" if fn.startswith("vL5") else lv, 1)
    else:
        corpus = [os.path.join(vlib.REPO, f) for f in CORPUS if os.path.exists(os.path.join(vlib.REPO, f))]
        units, _, _ = vcgen.emit_units(scratch, "none", 1, corpus=corpus)
    bmode = "noorc" if label.startswith("noorc") else "orc"
    opt = "-O0" if label.endswith("O0") else "-O2"
    code = "backup" if "backup" in label else "emulate" if "emulate" in label else None
    for u in units:
        if fn not in open(os.path.join(u, "s_calls.c")).read():
            continue
        ok, msg = vcgen.generate(u, variant or "default")
        exe, msg = vcgen.build(u, variant or "default", bmode, opt) if ok else (None, msg)
        if not exe:
            print(msg)
            bad = 1
            continue
        rc, so, se = vcgen.drive(exe, u, rep.get("property", "C04"), mode, env, "quick", code, "tolerant" if "jit" in label else "exact", only=fn)
        for l in so.splitlines():
            if '"t":"viol"' in l:
                print(l[:600])
                bad = 1
    shutil.rmtree(scratch, ignore_errors=True)
    if not bad:
        print("replayed without violation")
    return bad
