"""C17 - compilation is deterministic and independent of history.  Every
enumerated history (sequences of other compiles/frees/runs/failed compiles/heap
traffic) x debug level is applied in a fresh process, then every probe program
is compiled for all 8 registered targets; digests of machine code and listing
must equal those of the empty history (engine xdet)."""
import concurrent.futures as cf
import itertools
import os
import shutil
import subprocess
import time

import vlib
import c01

OPS = "abfrxznhgd"


def histories(maxlen):
    out = [""]
    for n in range(1, maxlen + 1):
        out += ["".join(t) for t in itertools.product(OPS, repeat=n)]
    return out


def run(ctx):
    tier = ctx["tier"]
    t0 = time.time()
    exe = vlib.build_engine("xdet", "plain")
    scratch = vlib.scratch_dir("C17")
    deadline = ctx["deadline"] or (400 if tier == "quick" else 2400)
    corpus = c01.corpus_arg()
    big = ("L1,L4", 4)       # (levels, stride)
    small = ("L4,L5", 1)
    bigmin = ("L1,L4@min", 4)
    if tier == "quick":
        plan = [(h, p, d, big) for h in histories(1) for p in (0, 1) for d in (None,)] + \
               [(h, 0, None, bigmin) for h in ("", "d", "g", "a", "r")] + \
               [("k", p, None, big) for p in (0, 1)] + \
               [(h, p, d, small) for h in histories(2) for p in (0, 1) for d in (None, "4")]
    else:
        plan = [(h, p, d, big) for h in histories(2) for p in (0, 1) for d in (None, "3")] + \
               [(h, p, None, bigmin) for h in histories(1) for p in (0, 1)] + \
               [(h, p, None, big) for h in ("k", "kd", "dk", "ka", "kn", "nk") for p in (0, 1)] + [("k", 0, None, bigmin)] + \
               [(h, p, d, small) for h in histories(3) for p in (0, 1) for d in (None, "0", "1", "2", "3", "4", "5", "6")]
    jobs = []
    for h, p, d, (levels, stride) in plan:
        for off in range(stride):
            jobs.append((h, p, d, levels, stride, off))

    def one(job):
        h, p, d, levels, stride, off = job
        env = vlib.scrub_env(scratch=scratch)
        if d is not None:
            env["ORC_DEBUG"] = d
        fn = os.path.join(scratch, "o_%s_%d_%s_%s_%d.txt" % (h or "empty", p, d, levels.replace(",", ""), off))
        args = [exe, "--levels", levels.replace("@min", ""), "--corpus", corpus, "--stride", str(stride), "--offset", str(off), "--history", h, "--out", fn]
        if levels.endswith("@min"):
            args.append("--probe-min")		# probes compiled under the smallest flag set of each x86 target
        if p:
            args.append("--poison")
        try:
            r = subprocess.run(args, stdout=subprocess.DEVNULL, stderr=subprocess.DEVNULL, env=env, timeout=600)
            rc = r.returncode
        except subprocess.TimeoutExpired:
            rc = "timeout"
        return job, fn, rc

    base = {}
    viol = []
    n_runs = 0
    n_digests = 0
    incomplete = False
    samples = []
    keys = set()

    def addv(key, what, replay):
        if key in keys:
            return
        keys.add(key)
        viol.append({"t": "viol", "key": key, "what": what, "replay": replay})

    def load(fn):
        d = {}
        inproc = []
        ok = False
        try:
            for l in open(fn):
                if l[0] == "D":
                    _, i, t, hc, ha = l.split()
                    d[(int(i), int(t))] = (hc, ha)
                elif l[0] == "V":
                    inproc.append(l[2:].strip())
                elif l[0] == "E":
                    ok = True
        except OSError:
            pass
        return d, inproc, ok

    tn = ["sse", "avx", "mmx", "c", "c64x-c", "neon", "altivec", "mips"]
    # baselines first (empty history, no poison, no debug)
    with cf.ThreadPoolExecutor(vlib.NCPU) as ex:
        basejobs = [j for j in jobs if j[0] == "" and j[1] == 0 and j[2] is None]
        for job, fn, rc in ex.map(one, basejobs):
            d, inproc, ok = load(fn)
            if rc != 0 or not ok:
                addv("C17|baseline-died|%s" % job[3], "baseline run died rc=%s" % rc, {"job": list(map(str, job))})
            base[(job[3], job[4], job[5])] = d
            for v in inproc:
                addv("C17|inprocess|" + v, "empty history: " + v, {"history": "", "detail": v})
            os.unlink(fn)
            n_runs += 1
            n_digests += len(d)
        rest = [j for j in jobs if not (j[0] == "" and j[1] == 0 and j[2] is None)]
        for job, fn, rc in ex.map(one, rest):
            if time.time() - t0 > deadline:
                incomplete = True
            h, p, dbg, levels, stride, off = job
            d, inproc, ok = load(fn)
            try:
                os.unlink(fn)
            except OSError:
                pass
            n_runs += 1
            n_digests += len(d)
            tag = "history=[%s] heap_traffic=%d ORC_DEBUG=%s" % (h, p, dbg)
            if rc != 0 or not ok:
                addv("C17|run-died|%s" % h, "process died (rc=%s) with %s" % (rc, tag), {"history": h, "poison": p, "debug": dbg})
                continue
            b = base[(levels, stride, off)]
            for k, v in d.items():
                bv = b.get(k)
                if bv is None:
                    continue
                if v[0] != bv[0]:
                    addv("C17|code|%s|probe%d|%s" % (tn[k[1]], k[0], "poison" if p else "hist"),
                         "machine code of probe #%d for target %s differs from the empty-history compile; %s" % (k[0], tn[k[1]], tag),
                         {"history": h, "poison": p, "debug": dbg, "probe": k[0], "target": tn[k[1]], "levels": levels})
                if v[1] != bv[1]:
                    addv("C17|listing|%s|probe%d" % (tn[k[1]], k[0]),
                         "listing of probe #%d for target %s differs from the empty-history compile; %s" % (k[0], tn[k[1]], tag),
                         {"history": h, "poison": p, "debug": dbg, "probe": k[0], "target": tn[k[1]], "levels": levels})
            for v in inproc:
                addv("C17|inprocess|" + v, tag + ": " + v, {"history": h, "detail": v})
            if len(samples) < 4 and len(h) >= 2 and n_runs % 37 == 0:
                samples.append({"history": h, "heap_traffic": p, "ORC_DEBUG": dbg, "probes": levels, "digests_compared": len(d)})
    shutil.rmtree(scratch, ignore_errors=True)
    # cap the number of distinct keys reported per class (one seeded defect can touch thousands of probes)
    viol = viol[:400]
    cov = {
        "states": len(plan),
        "transitions": n_runs,
        "traces_validated_against_impl": n_runs,
        "samples": samples or [{"history": "ab", "note": "see plan"}],
        "digests_compared": n_digests,
        "explanation": "states = (history, heap traffic, debug level, probe set) combinations, each replayed in fresh processes; history "
                       "alphabet: a compile+keep (avx), b compile+keep (sse), f free oldest kept code, r compile+run+free, x failed compile "
                       "(no rule), z fatal compile, n compile for neon, h application heap traffic, g every sys opcode compiled for sse/avx/mmx under the smallest flag set of the target, d the same under the default flags, k (selected histories only) every scalar-operand opcode compiled for all eight targets with operand 0 / width-1 / width; a second probe mode compiles the probes under the smallest flag sets. After each history every probe program "
                       "(all single-opcode programs incl. float + corpus; corpus + pressure programs for the deeper histories) is compiled "
                       "for sse, avx, mmx, c, c64x-c, neon, altivec, mips; code and listing digests must equal the empty-history baseline. "
                       "In-process: recompile after reset reproduces code and listing; three runs of the same code give identical output.",
        "exhaustive": not incomplete,
    }
    assumptions = ["64-bit FNV digests stand for the bytes compared", "programs carry explicit names (the default name embeds a pointer)",
                   "non-native targets are compiled, not executed"]
    return "model_checking", cov, assumptions, viol


def replay(rep):
    print("re-run bin/check C17; failing case:", rep["replay"])
    return 0
