"""C20 - application-registered opcodes and rules.  Exhaustive enumeration of
registration histories (engine xreg), one process per history, probes after
each history, differential oracle for built-in behaviour."""
import shutil
import vlib


def run(ctx):
    tier = ctx["tier"]
    exe = vlib.build_engine("xreg", "plain")
    scratch = vlib.scratch_dir("C20")
    env = vlib.scrub_env(scratch=scratch)
    nsh = vlib.NCPU * 2
    deadline = ctx["deadline"] or (300 if tier == "quick" else 1800)
    args = [["--tier", tier, "--shard", i, "--nshards", nsh] for i in range(nsh)]
    res = vlib.run_shards(exe, args, env, timeout=deadline, label="xreg")
    # the same exploration with ORC_CODE=debug in the environment (frame pointers; compile flags are adjusted in this mode)
    env2 = dict(env)
    env2["ORC_CODE"] = "debug"
    res2 = vlib.Results()
    vlib.run_shards(exe, args, env2, timeout=deadline, res=res2, label="xreg-debug")
    for v in res2.viol:
        v["key"] += "|ORC_CODE=debug"
        v["what"] = "with ORC_CODE=debug: " + v["what"]
        v.setdefault("replay", {})["orc_code"] = "debug"
        res.viol.append(v)
    if res2.incomplete:
        res.incomplete = True
    shutil.rmtree(scratch, ignore_errors=True)
    st = res.stats
    n = int(st.get("histories", 0)) + int(res2.stats.get("histories", 0))
    cov = {
        "states": n,
        "transitions": n,
        "traces_validated_against_impl": n,
        "samples": res.samples or [{"note": "none"}],
        "alphabet_size": int(st.get("alphabet", 0)),
        "depth": 4 if tier == "quick" else 5,
        "explanation": "a state is a registration history (registries are append-only, so history = state); every legal history up to the "
                       "depth over the alphabet {register opcode set A {myop,myop2} / B {addbx: extends a built-in name} / C {add: prefix of "
                       "built-in names} (/ D 15-character name), register a rule set for (target, set, required flags in {none, a flag the "
                       "CPU has, a flag it lacks, two flags of which it lacks one, two flags it has}), register an overriding rule set for built-in addw} is applied in a fresh process, within the "
                       "rule-set capacity of each target; then extension-only, mixed and built-in probe programs are emulated and compiled (default flags and explicit flag vectors). The whole exploration runs twice: with a clean environment and with ORC_CODE=debug.",
        "oracles": ["names resolve to the application's opcodes", "emulation calls the application's function and equals its reference",
                    "the latest registered rule set whose flags are satisfied is the one used, else no native code and emulation",
                    "native results equal the reference", "built-in programs: identical machine code and results as without registrations "
                    "(unless an override is registered, which must then be used)"],
        "exhaustive": not res.incomplete,
        "notes": res.notes[:5],
    }
    assumptions = ["application rules are written with the public emit macros for sse/avx/mmx", "capacity limits (ORC_N_RULE_SETS) are respected by the histories"]
    return "model_checking", cov, assumptions, res.viol


def replay(rep):
    """Apply the recorded registration history in a fresh process and probe."""
    import subprocess
    h = rep["replay"].get("history", "")
    exe = vlib.build_engine("xreg", "plain")
    scratch = vlib.scratch_dir("C20r")
    bad = []
    for tier in ("quick", "thorough"):
        e = vlib.scrub_env(scratch=scratch)
        if rep["replay"].get("orc_code"):
            e["ORC_CODE"] = rep["replay"]["orc_code"]
        p = subprocess.run([exe, "--tier", tier, "--only-history", h], stdout=subprocess.PIPE, env=e, timeout=1200)
        bad = [l for l in p.stdout.decode().splitlines() if '"t":"viol"' in l]
        if bad or '"histories":1' in p.stdout.decode():
            break
    shutil.rmtree(scratch, ignore_errors=True)
    print("\n".join(b[:500] for b in bad[:5]) if bad else "replayed without violation")
    return 1 if bad else 0
