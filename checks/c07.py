"""C07 - what orcc generates works end to end through its C prototype.
S-prog x S-conf x S-in: .orc sources (the repository's corpus and enumerated
single-opcode programs) x orcc option sets x build/run modes {JIT,
ORC_CODE=backup, ORC_CODE=emulate, -DDISABLE_ORC} x eager/lazy initialisation;
every generated function is compiled by gcc, called through its C prototype
(engine xcdrv) over an enumerated input space and compared with emulation.
orc_memcpy / orc_memset are swept over every length and alignment (xmemcpy)."""
import os
import shutil
import subprocess

import vlib
import vcgen
from c01 import CORPUS

JIT = ("jit", None, "tolerant")
BACKUP = ("backup", "backup", "nan")
EMU = ("emulate", "emulate", "nan")
NOORC = ("noorc", None, "nan")

# variant -> builds; corpus units skip the compat variants (declared alignments etc. need newer --compat)
MATRIX = {
    "default": [("noorc", "-O2", [NOORC]), ("orc", "-O2", [JIT, BACKUP, EMU])],
    "eager": [("noorc", "-O2", [NOORC]), ("orc", "-O2", [JIT, BACKUP, EMU])],
    "eager-lazy": [("orc", "-O2", [JIT, BACKUP])],
    # without a backup function ORC_CODE=backup has nothing to switch to: the JIT code runs
    "nobackup": [("orc", "-O2", [JIT, ("backup", "backup", "tolerant"), EMU])],
    "compat0411": [("orc", "-O2", [JIT, BACKUP, EMU])],
    "compat0415": [("orc", "-O2", [JIT, BACKUP])],
    "inline": [("orc", "-O2", [JIT, EMU])],
}


def memfn(env, tier, res):
    fl = list(vlib.VARIANTS["plain"][1])
    exe = vlib.build_engine("xmemcpy", "plain", extra_src=[os.path.join(vlib.REPO, "orc", "orcfunctions.c")],
                            per_src_flags={"orcfunctions.c": fl + ["-DDISABLE_ORC", "-Dorc_memcpy=noorc_memcpy", "-Dorc_memset=noorc_memset"]})
    maxlen = 1100 if tier == "quick" else 4200
    for m, code in (("jit", None), ("backup", "backup"), ("emulate", "emulate")):
        e = dict(env)
        if code:
            e["ORC_CODE"] = code
        r = subprocess.run([exe, "--mode", m, "--maxlen", str(maxlen)], env=e, stdout=subprocess.PIPE, stderr=subprocess.PIPE, timeout=3000)
        for l in r.stdout.decode().splitlines():
            res.feed(l)
        if r.returncode:
            res.viol.append({"t": "viol", "key": "C07|memfn|died|%s" % m, "what": "xmemcpy exited rc=%s in mode %s: %s" % (r.returncode, m, r.stderr.decode()[-500:]),
                             "replay": {"mode": m}})
    return maxlen


def run(ctx):
    tier = ctx["tier"]
    scratch = vlib.scratch_dir("C07")
    env = vlib.scrub_env(scratch=scratch)
    res = vlib.Results()
    maxlen = memfn(env, tier, res)
    corpus = [os.path.join(vlib.REPO, f) for f in CORPUS if os.path.exists(os.path.join(vlib.REPO, f))]
    d = os.path.join(scratch, "p0")
    os.makedirs(d)
    if tier == "quick":
        units, space, nfun = vcgen.emit_units(d, "L1,L5", 64, noalign=1, corpus=corpus, stride=8)
    else:
        units, space, nfun = vcgen.emit_units(d, "L1,L5", 64, noalign=0, corpus=corpus, stride=1)
    # boundary integers of the serialised form (constant n / m of 253..257) and inline literals shared by instructions of
    # different width (LL): always, as a unit of its own
    db = os.path.join(scratch, "pb")
    os.makedirs(db)
    ub, _, nb = vcgen.emit_units(db, "LB,LL,LW", 1)
    units += ub
    nfun += nb
    jobs = []
    for u in units:
        is_corpus = os.path.basename(u).startswith("c")
        for variant, builds in MATRIX.items():
            if variant.startswith("compat") and is_corpus:
                continue
            if variant == "inline" and is_corpus and "orc_memcpy" in open(os.path.join(u, "s.orc")).read():
                continue	# static inline orc_memcpy would collide with the library's own declaration in orc.h
            jobs.append({"unit": u, "variant": variant, "builds": builds, "prop": "C07", "env": env, "tier": tier})
    if tier != "quick":
        # compat variants need units without declared alignments
        d2 = os.path.join(scratch, "p1")
        os.makedirs(d2)
        u2, _, _ = vcgen.emit_units(d2, "L1,L5,LB", 64, noalign=1, stride=2)
        jobs = [j for j in jobs if not j["variant"].startswith("compat")]
        for u in u2:
            for variant in ("compat0411", "compat0415"):
                jobs.append({"unit": u, "variant": variant, "builds": MATRIX[variant], "prop": "C07", "env": env, "tier": tier})
    tot, viols = vcgen.run_jobs(jobs, res)
    shutil.rmtree(scratch, ignore_errors=True)
    st = res.stats
    cov = {
        "evaluations": int(st.get("calls", 0)) + int(st.get("memfn_calls", 0)),
        "distinct_nontrivial": int(st.get("functions_equal", 0)),
        "rule": "sources: every file of the .orc corpus (testsuite/test.orc, orc/orcfunctions.orc, examples/*.orc) and %s of the single-opcode "
                "program space L1 + pressure programs L5 printed as .orc text; orcc option sets {default, --init-function (eager), "
                "--init-function --lazy-init, --no-backup, --compat 0.4.11, --compat 0.4.15, --inline}; for each, --implementation and --header "
                "must be produced and compile with gcc; build/run modes {-DDISABLE_ORC, JIT, ORC_CODE=backup, ORC_CODE=emulate}; every "
                "function is called through its prototype (array pointers, per-array strides, int/float/int64/double parameters, n, m, "
                "accumulator out-pointers) for n in {0..5,7,8,9,15,16,17,31,33}, 2-D shapes, all parameter-domain values and value tables, and "
                "compared with orc_executor_emulate of the program parsed from the same text. orc_memcpy/orc_memset (library wrappers in "
                "JIT/backup/emulate mode and the Orc-free bodies) for every length 0..%d x destination offset 0..31 x source offset 0..31 "
                "(memset: offsets 0..63 x 5 values) against memcpy/memset with guard bytes. non-trivial = (function, variant, mode) "
                "triples whose every comparison ran and agreed." % ("every 8th shard (alignment variants left out)" if tier == "quick" else "all", maxlen),
        "samples": res.samples[:8] or [{"note": "none"}],
        "orc_sources": len(units),
        "functions_generated": nfun,
        "function_variant_mode_triples": int(st.get("functions", 0)),
        "orcc_variant_unit_pairs": len(jobs),
        "gcc_builds": tot["builds"],
        "driver_runs": tot["runs"],
        "elements_compared": int(st.get("elements", 0)),
        "memfn_calls": int(st.get("memfn_calls", 0)),
        "memfn_bytes": int(st.get("memfn_bytes", 0)),
        "program_space_size": space,
        "exhaustive": not res.incomplete,
        "notes": res.notes[:10],
    }
    assumptions = [
        "gcc 12 -O2 is the C compiler for the generated code; emulation of the parsed program is the oracle",
        "JIT mode compares float programs on finite inputs with the cross-path tolerance of C18 (NaN payload, hardware flush-to-zero, sign of "
        "zero in min/max); the C modes compare bit for bit except NaN sign/payload",
        "8-byte parameters declared with plain .param are driven with non-negative 31-bit values (the prototype passes an int)",
        "orcc --test output needs orc-test and is exercised by the repository's own suite only",
    ]
    return "exploration", cov, assumptions, viols + res.viol


def replay(rep):
    import c04
    rep = dict(rep)
    rep["property"] = "C07"
    r = rep.get("replay", {})
    if "fn" in r:
        scratch = vlib.scratch_dir("C07r")
        env = vlib.scrub_env(scratch=scratch)
        res = vlib.Results()
        memfn(env, "quick", res)
        shutil.rmtree(scratch, ignore_errors=True)
        for v in res.viol:
            print(v["what"])
        if not res.viol:
            print("replayed without violation")
        return 1 if res.viol else 0
    if "unit" in r and "function" not in r:
        print("unit-level failure (orcc/gcc): re-run bin/check C07 --tier quick")
        return 0
    return c04.replay(rep)
