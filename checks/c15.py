"""C15 - .orc text denotes the API-built program (engine xtext, ASan+bounds)."""
import shutil
import vlib


def run(ctx):
    tier = ctx["tier"]
    exe = vlib.build_engine("xtext", "asan")
    scratch = vlib.scratch_dir("C15")
    env = vlib.scrub_env(scratch=scratch)
    nsh = vlib.NCPU * 4
    levels = "L1,L5" if tier == "quick" else "L1,L2,L3,L5"
    deadline = ctx["deadline"] or (400 if tier == "quick" else 2400)
    args = [["--tier", tier, "--levels", levels, "--shard", i, "--nshards", nsh] for i in range(nsh)]
    res = vlib.run_shards(exe, args, env, timeout=deadline, label="xtext")
    shutil.rmtree(scratch, ignore_errors=True)
    st = res.stats
    cov = {
        "evaluations": int(st.get("renderings", 0)),
        "distinct_nontrivial": int(st.get("programs", 0)),
        "rule": "every program descriptor of levels %s (integer and float; all operand kinds, x2/x4, 2-D, constant n/m, declared alignments, "
                "every parameter class, 1/2/4/8-byte constants incl. 64-bit and float bit patterns) is built through the API and rendered as "
                "text by an independent printer in the formatting space {LF, CRLF} x indentation {none, spaces, tab} x operand separator "
                "{', ' ',' ' ' ' , '} x comments {none, full-line, trailing} x blank lines {no, yes} x literal spelling {decimal, hex, float "
                "notation} x type names {no, yes} x final newline {yes, no} x constants {named .const, inline literal}: %s. Each rendering "
                "is parsed (0 errors, 1 program) and compared with the twin field by field; emulation results compared for a subset of "
                "renderings. evaluations = renderings parsed, distinct non-trivial = program descriptors." %
                (levels, "the full cross product for every program" if tier == "thorough" else "the full cross product (up to 3456 renderings) for every 16th program, each choice varied alone plus an all-non-default mix for the others"),
        "samples": res.samples or [{"note": "none"}],
        "emulation_comparisons": int(st.get("emulation_comparisons", 0)),
        "exhaustive": not res.incomplete,
        "notes": res.notes[:5],
    }
    assumptions = ["constants are compared through the operands that use them (inline literals are deduplicated by the parser, names differ by design)",
                   "float notation is used only for values whose short decimal spelling is exact"]
    return "exploration", cov, assumptions, res.viol


def replay(rep):
    import c14
    return c14.replay(rep)
