"""C12 - the listing and the machine code are the same program.  Bounded
exhaustive S-prog x S-conf enumeration (engine xasm, dump mode): for every
program of the enumerated levels and every flag vector of each x86 target, the
listing is assembled with GNU as, the code bytes are wrapped in .byte
directives and assembled too, and both objects are disassembled with objdump
and compared instruction for instruction (branch targets as instruction
indices, alignment padding removed)."""
import concurrent.futures as cf
import glob
import os
import re
import shutil
import sys

import vlib
import vasm
import vcross

from c01 import corpus_arg


def split_records(path):
    """lst file -> list of (first_line_no, last_line_no, name)"""
    recs = []
    start = None
    name = None
    n = 0
    with open(path) as f:
        for n, l in enumerate(f, 1):
            if l == ".text\n":
                if start is not None:
                    recs.append((start, n - 1, name))
                start, name = n, None
            elif name is None and l.endswith(":\n") and not l[0].isdigit() and not l[0] in " .":
                name = l[:-2]
    if start is not None:
        recs.append((start, n, name))
    return recs


def process(job):
    base, target, flags = job
    bits = 64 if flags & (1 << 9) else 32
    lst, binf, idx = base + ".lst.s", base + ".bin.s", base + ".idx"
    desc = {}
    for l in open(idx):
        k, _, v = l.rstrip("\n").partition("\t")
        desc[k] = v
    out = {"viol": [], "functions": 0, "insns": 0, "equal": 0, "rejected_functions": 0, "as_runs": 0, "branches": 0}
    vkeys = set()

    def viol(key, what, name, extra=None):
        if key in vkeys:
            return
        vkeys.add(key)
        rep = {"program": desc.get(name, name), "name": name, "target": target, "flags": flags}
        if extra:
            rep.update(extra)
        out["viol"].append({"t": "viol", "key": key, "what": what, "replay": rep})

    # 1. assemble the listing; functions with rejected lines are reported and removed
    ok, errs = vasm.assemble(lst, base + ".lst.o", bits)
    out["as_runs"] += 1
    rejected = set()
    if not ok:
        recs = split_records(lst)
        lines = open(lst).read().split("\n")
        for ln, msg in errs:
            text = lines[ln - 1].strip() if 0 < ln <= len(lines) else "?"
            name = None
            for a, b, nm in recs:
                if a <= ln <= b:
                    name = nm
                    rejected.add((a, b))
                    break
            mn = text.split()[0] if text else "?"
            msgc = re.sub(r"`[^']*'", "`%s'" % mn, msg)
            viol("C12|%s|%d|rejected|%s|%s" % (target, bits, vasm.reduce_form(" ".join(text.split())), msgc),
                 "GNU as rejects the listing line `%s` (%s); target %s flags 0x%x; program: %s" % (text, msg, target, flags, desc.get(name, name)),
                 name, {"line": text})
        if not errs:
            viol("C12|%s|%d|as-failed" % (target, bits), "as failed without a parsable error on %s" % lst, None)
            return out
        drop = set()
        for a, b in rejected:
            drop.update(range(a, b + 1))
        with open(base + ".lst2.s", "w") as f:
            f.write("\n".join(l for i, l in enumerate(lines, 1) if i not in drop))
        ok, errs2 = vasm.assemble(base + ".lst2.s", base + ".lst.o", bits)
        out["as_runs"] += 1
        if not ok:
            viol("C12|%s|%d|as-failed-twice" % (target, bits), "as still fails after removing rejected functions: %s" % errs2[:3], None)
            return out
    out["rejected_functions"] = len(rejected)
    ok, errs = vasm.assemble(binf, base + ".bin.o", bits)
    out["as_runs"] += 1
    if not ok:
        viol("C12|harness|bin-assemble", "byte file did not assemble: %s" % errs[:3], None)
        return out
    A = vasm.disassemble(base + ".lst.o")
    B = vasm.disassemble(base + ".bin.o")
    for name, b in B.items():
        a = A.get(name)
        if a is None:
            continue		# rejected above
        out["functions"] += 1
        out["insns"] += len(b)
        if a == b:
            out["equal"] += 1
            out["branches"] += sum(1 for t in b if " @" in t)
            continue
        if len(a) == len(b):
            ks = [k for k in range(len(a)) if a[k] != b[k]]
        else:
            k = 0
            while k < len(a) and k < len(b) and a[k] == b[k]:
                k += 1
            ks = [k]
        for k in ks:
            la = a[k] if k < len(a) else "<end>"
            lb = b[k] if k < len(b) else "<end>"
            viol("C12|%s|%d|diff|%s != %s" % (target, bits, vasm.reduce_form(la), vasm.reduce_form(lb)),
                 "instruction %d differs: listing assembles to `%s`, emitted bytes decode to `%s` (listing has %d instructions, code %d); target %s flags 0x%x; program: %s"
                 % (k, la, lb, len(a), len(b), target, flags, desc.get(name, name)), name, {"index": k, "listing": la, "bytes": lb})
    for f in (base + ".lst.o", base + ".bin.o", base + ".lst2.s"):
        if os.path.exists(f):
            os.unlink(f)
    return out


def orcc_leg(scratch, env):
    """orcc --binary --target T: the listing orcc writes (what users assemble)
    against the code bytes orcc writes next to it, for every corpus file."""
    import subprocess
    from c01 import CORPUS
    orcc = vlib.build_tool("orcc")
    viols = []
    tot = {"functions": 0, "insns": 0, "equal": 0, "files": 0}
    # one source per function, so that a function one target cannot compile does not take the file with it
    sources = []
    for rel in CORPUS:
        p = os.path.join(vlib.REPO, rel)
        if not os.path.exists(p):
            continue
        parts = re.split(r"(?m)^(?=\.function\b)", open(p).read())
        for j, part in enumerate(parts):
            if not part.startswith(".function"):
                continue
            fn = os.path.join(scratch, "src_%d_%d.orc" % (len(sources), j))
            open(fn, "w").write(part)
            sources.append(("%s#%s" % (rel, part.split()[1]), fn))
    for k, (rel, src) in enumerate(sources):
        for t in ("sse", "avx", "mmx"):
            d = os.path.join(scratch, "orcc_%d_%s" % (k, t))
            os.makedirs(d)
            r = subprocess.run([orcc, "--binary", "--target", t, "-o", "out.s", src], cwd=d, env=env, stdout=subprocess.PIPE, stderr=subprocess.PIPE, timeout=600)
            bins = sorted(glob.glob(os.path.join(d, "*_%s.bin" % t)))
            if not os.path.exists(os.path.join(d, "out.s")) or not bins:
                # programs the target cannot compile make orcc fail as a whole: not this property's subject
                continue
            tot["files"] += 1
            with open(os.path.join(d, "bin.s"), "w") as f:
                for b in bins:
                    name = os.path.basename(b)[:-len("_%s.bin" % t)]
                    data = open(b, "rb").read()
                    f.write(".text\n.p2align 4\n%s:\n" % name)
                    for i in range(0, len(data), 16):
                        f.write(".byte " + ",".join("0x%02x" % c for c in data[i:i + 16]) + "\n")
                    f.write("  ud2\n")
            # orcc's listing: comment lines are C comments, fine for as
            ok, errs = vasm.assemble(os.path.join(d, "out.s"), os.path.join(d, "lst.o"), 64)
            if not ok:
                viols.append({"t": "viol", "key": "C12|orcc|%s|rejected|%s" % (t, rel), "what": "as rejects orcc --assembly --target %s output for %s: %s" % (t, rel, errs[:3]),
                              "replay": {"file": rel, "target": t}})
                continue
            ok, errs = vasm.assemble(os.path.join(d, "bin.s"), os.path.join(d, "bin.o"), 64)
            A = vasm.disassemble(os.path.join(d, "lst.o"))
            B = vasm.disassemble(os.path.join(d, "bin.o"))
            for name, b in B.items():
                a = A.get(name)
                if a is None:
                    viols.append({"t": "viol", "key": "C12|orcc|%s|missing|%s" % (t, rel), "what": "function %s has code bytes but no label in orcc's listing (%s, %s)" % (name, rel, t),
                                  "replay": {"file": rel, "target": t, "name": name}})
                    continue
                tot["functions"] += 1
                tot["insns"] += len(b)
                if a == b:
                    tot["equal"] += 1
                    continue
                kx = 0
                while kx < len(a) and kx < len(b) and a[kx] == b[kx]:
                    kx += 1
                la = a[kx] if kx < len(a) else "<end>"
                lb = b[kx] if kx < len(b) else "<end>"
                viols.append({"t": "viol", "key": "C12|orcc|%s|diff|%s != %s" % (t, vasm.reduce_form(la), vasm.reduce_form(lb)),
                              "what": "orcc --binary --target %s %s: function %s instruction %d: listing assembles to `%s`, the .bin file decodes to `%s`" % (t, rel, name, kx, la, lb),
                              "replay": {"file": rel, "target": t, "name": name}})
            shutil.rmtree(d, ignore_errors=True)
    return tot, viols


def cross_leg(scratch, env, tier):
    """32-bit NEON and MIPS: listing against code bytes with clang's integrated assembler (lib/vcross.py)."""
    exe = vlib.build_engine("xasm", "plain")
    levels = "L1,L2,L3,L4,L5,L6"		# cheap (seconds): the same levels in both tiers
    d = os.path.join(scratch, "cross")
    os.makedirs(d)
    nsh = 16
    res = vlib.Results()
    args = [["--mode", "cross", "--levels", levels, "--vectors", "cross", "--targets", "neon,mips", "--classes", "both",
             "--corpus", corpus_arg(), "--shard", i, "--nshards", nsh, "--outdir", d] for i in range(nsh)]
    vlib.run_shards(exe, args, env, timeout=3600, res=res, label="xasm-cross")
    jobs = []
    for f in sorted(glob.glob(os.path.join(d, "*.idx"))):
        base = f[:-4]
        t, fl, _ = os.path.basename(base).split("_")
        if os.path.getsize(f):
            jobs.append((base, t, int(fl, 16)))
    tot = {"functions": 0, "equal": 0, "equal_mod_encoding": 0, "words": 0, "rejected_functions": 0, "as_runs": 0}
    per = {}
    viols = []
    with cf.ProcessPoolExecutor(vlib.NCPU) as ex:
        for job, o in zip(jobs, ex.map(vcross.process, jobs)):
            for k in tot:
                tot[k] += o[k]
            per.setdefault(job[1], 0)
            per[job[1]] += o["functions"]
            viols.extend(o["viol"])
    tot["functions_per_target"] = per
    tot["levels"] = levels
    tot["compiles"] = int(res.stats.get("compiles", 0))
    # orcc: what users assemble.  Every corpus function and a two-function file whose names differ by a digit suffix
    import subprocess
    from c01 import CORPUS
    orcc = vlib.build_tool("orcc")
    sources = []
    for rel in CORPUS:
        p = os.path.join(vlib.REPO, rel)
        if os.path.exists(p):
            sources.append((rel, p))
    two = os.path.join(scratch, "two.orc")
    open(two, "w").write(".function conv\n.dest 2 d1\n.source 2 s1\n.source 2 s2\naddw d1, s1, s2\n\n.function conv1\n.dest 2 d1\n.source 2 s1\n"
                         ".param 2 p1\nsubw d1, s1, p1\n\n.function conv11\n.flags 2d\n.dest 1 d1\n.source 1 s1\ncopyb d1, s1\n")
    sources.append(("synthetic: three functions conv, conv1, conv11 in one file", two))
    otot = {"files": 0, "functions": 0, "equal": 0, "equal_mod_encoding": 0}
    for k, (rel, src) in enumerate(sources):
        # one function per file for the corpus (a function a target cannot compile fails the whole orcc run), whole file for the synthetic one
        parts = [src]
        if src != two:
            parts = []
            for j, part in enumerate(re.split(r"(?m)^(?=\.function\b)", open(src).read())):
                if part.startswith(".function"):
                    fn = os.path.join(scratch, "xsrc_%d_%d.orc" % (k, j))
                    open(fn, "w").write(part)
                    parts.append(fn)
        for pi, part in enumerate(parts):
            for t in ("neon", "mips"):
                dd = os.path.join(scratch, "xorcc_%d_%d_%s" % (k, pi, t))
                os.makedirs(dd)
                r = subprocess.run([orcc, "--binary", "--target", t, "-o", "out.s", part], cwd=dd, env=env, stdout=subprocess.PIPE, stderr=subprocess.PIPE, timeout=600)
                bins = glob.glob(os.path.join(dd, "*_%s.bin" % t))
                if r.returncode or not os.path.exists(os.path.join(dd, "out.s")) or not bins:
                    shutil.rmtree(dd, ignore_errors=True)
                    continue
                otot["files"] += 1
                obj = os.path.join(dd, "out.o")
                ra = vcross.run(["clang", "-c"] + vcross.TRIPLE[t] + [os.path.join(dd, "out.s"), "-o", obj])
                if ra.returncode:
                    msg = ra.stderr.decode(errors="replace")
                    m = re.search(r"error: (.*)", msg)
                    kind = re.sub(r"'[^']*'", "'X'", m.group(1)) if m else "?"
                    viols.append({"t": "viol", "key": "C12|orcc|%s|rejected|%s" % (t, kind),
                                  "what": "the output of orcc --assembly --target %s for %s is rejected by the standard assembler: %s" % (t, rel, msg[:300]),
                                  "replay": {"file": rel, "target": t, "cross": 1}})
                    shutil.rmtree(dd, ignore_errors=True)
                    continue
                binf = os.path.join(dd, "text.bin")
                vcross.run(["llvm-objcopy", "-O", "binary", "-j", ".text", obj, binf])
                text = open(binf, "rb").read()
                sym = vcross.symbols(obj)
                names = sorted((sym[os.path.basename(b)[:-len("_%s.bin" % t)]], os.path.basename(b)[:-len("_%s.bin" % t)], b) for b in bins
                               if os.path.basename(b)[:-len("_%s.bin" % t)] in sym)
                for j, (addr, name, b) in enumerate(names):
                    stop = names[j + 1][0] if j + 1 < len(names) else len(text)
                    a, bb = text[addr:stop], open(b, "rb").read()
                    otot["functions"] += 1
                    if a == bb:
                        otot["equal"] += 1
                    elif len(a) == len(bb) and vcross.canon(t, a) == vcross.canon(t, bb):
                        otot["equal_mod_encoding"] += 1
                    else:
                        viols.append({"t": "viol", "key": "C12|orcc|%s|diff|%s" % (t, rel),
                                      "what": "orcc --binary --target %s %s: function %s: the listing assembles to %d bytes, the .bin file has %d, contents differ"
                                              % (t, rel, name, len(a), len(bb)), "replay": {"file": rel, "target": t, "name": name, "cross": 1}})
                shutil.rmtree(dd, ignore_errors=True)
    tot["orcc"] = otot
    shutil.rmtree(d, ignore_errors=True)
    return tot, viols, res


def run(ctx):
    tier = ctx["tier"]
    exe = vlib.build_engine("xasm", "plain")
    scratch = vlib.scratch_dir("C12")
    env = vlib.scrub_env(scratch=scratch)
    nsh = 16
    if tier == "quick":
        # "minimal": sse under SSE2 / +SSE3 / +SSSE3 and mmx under MMX+MMXEXT / +SSSE3 - the fall-back rules of every opcode
        plans = [("L1,L4,L5,L6", "env", "sse,avx,mmx"), ("L1,L4,L6", "minimal", "sse,mmx")]
    else:
        plans = [("L1,L2,L3,L4,L5,L6", "env", "sse,avx,mmx"), ("L1,L4,L6", "lattice", "sse,avx,mmx")]
    res = vlib.Results()
    tot = {"functions": 0, "insns": 0, "equal": 0, "rejected_functions": 0, "as_runs": 0, "branches": 0}
    viols = []
    nvec = 0
    for pi, (levels, vectors, targets) in enumerate(plans):
        d = os.path.join(scratch, "p%d" % pi)
        os.makedirs(d)
        args = [["--mode", "dump", "--levels", levels, "--vectors", vectors, "--targets", targets, "--classes", "both",
                 "--corpus", corpus_arg(), "--shard", i, "--nshards", nsh, "--outdir", d] for i in range(nsh)]
        vlib.run_shards(exe, args, env, timeout=3600, res=res, label="xasm")
        jobs = []
        vecs = set()
        for f in sorted(glob.glob(os.path.join(d, "*.idx"))):
            base = f[:-4]
            t, fl, _ = os.path.basename(base).split("_")
            vecs.add((t, fl))
            if os.path.getsize(f) == 0:
                continue
            jobs.append((base, t, int(fl, 16)))
        nvec += len(vecs)
        with cf.ProcessPoolExecutor(vlib.NCPU) as ex:
            for o in ex.map(process, jobs):
                for k in tot:
                    tot[k] += o[k]
                viols.extend(o["viol"])
        shutil.rmtree(d, ignore_errors=True)
    otot, oviols = orcc_leg(scratch, env)
    viols.extend(oviols)
    ctot, cviols, cres = cross_leg(scratch, env, tier)
    viols.extend(cviols)
    viols.extend(cres.viol)
    shutil.rmtree(scratch, ignore_errors=True)
    # merge duplicate keys across shards
    seen = {}
    for v in viols + res.viol:
        seen.setdefault(v["key"], v)
    viols = list(seen.values())
    st = res.stats
    cov = {
        "evaluations": int(tot["functions"] + tot["rejected_functions"]),
        "distinct_nontrivial": int(tot["functions"]),
        "rule": "every program of the levels %s (L1 every single-opcode form, L4 the .orc corpus, L5 pressure/constant-n programs; thorough adds "
                "L2 pairs and L3 chains) compiled for sse, avx and mmx under every flag vector of {host features} x {64-bit, 32-bit} x "
                "{frame pointer} x {long, short jumps} (thorough: plus every subset of each target's feature bits x {64,32}); each "
                "successful compile contributes one (listing, code bytes) pair; a pair is evaluated by assembling both with GNU as and "
                "comparing objdump's instruction sequences; non-trivial = the listing assembled and was compared. orcc leg: for every corpus "
                "file x {sse,avx,mmx}, the listing written by orcc --binary --target T is assembled and compared the same way with the "
                "<function>_<target>.bin files orcc writes next to it. Cross-assembler leg: every program of the levels %s compiled for 32-bit "
                "NEON (flags NEON) and MIPS (DSPr2; DSPr2 + frame pointer); the listing, preceded by the target's own assembler preamble, is "
                "assembled with clang's integrated assembler (armv7a +neon / mipsel mips32r2 +dspr2) and the .text bytes are compared with the "
                "bytes Orc emitted, equal modulo the nop and single-register push/pop encodings; the same for the output of orcc --binary "
                "--target neon|mips on every corpus function and on a three-function file whose names differ by a digit suffix"
                % (", ".join(p[0] for p in plans), ctot["levels"]),
        "samples": [{"plans": plans, "flag_vectors": nvec}],
        "flag_vectors": nvec,
        "compiles": int(st.get("compiles", 0)),
        "compiled_ok": int(st.get("compiled_ok", 0)),
        "functions_compared": tot["functions"],
        "functions_equal": tot["equal"],
        "functions_with_rejected_listing": tot["rejected_functions"],
        "instructions_compared": tot["insns"],
        "branch_targets_compared": tot["branches"],
        "assembler_runs": tot["as_runs"],
        "program_space_size": int(st.get("space_size", 0)),
        "orcc_binary_leg": otot,
        "cross_assembler_leg": ctot,
        "exhaustive": not (res.incomplete or cres.incomplete),
    }
    assumptions = [
        "GNU as 2.40 and objdump are the reference assembler/disassembler; equality is on objdump's rendering (mnemonic, registers, "
        "memory operands, immediates), so two encodings of the same instruction (rel8/rel32, imm8/imm32, disp0/disp8=0) are equal",
        "alignment padding (nop forms) is removed on both sides; branch targets are compared as indices of the target instruction",
        "clang 14's integrated assembler is the standard assembler for 32-bit NEON and MIPS (no GNU cross binutils in the image); "
        "AArch64 and PowerPC listings are outside the property's quantifier and are not compared",
    ]
    return "exploration", cov, assumptions, viols


def replay(rep):
    import subprocess
    r = rep["replay"]
    exe = vlib.build_engine("xasm", "plain")
    scratch = vlib.scratch_dir("C12r")
    env = vlib.scrub_env(scratch=scratch)
    lv = "L" + r["name"][2] if (r.get("name") or "").startswith("vL") else "L1"
    if r.get("cross"):
        bad = 0
        if r.get("name") and (r.get("name") or "").startswith("vL"):
            subprocess.run([exe, "--mode", "cross", "--levels", lv, "--vectors", "cross", "--targets", r["target"], "--only", r["name"],
                            "--only-flags", str(r["flags"]), "--corpus", corpus_arg(), "--outdir", scratch], env=env, stdout=subprocess.DEVNULL, timeout=600)
            for f in glob.glob(os.path.join(scratch, "*.idx")):
                if os.path.getsize(f):
                    t, fl, _ = os.path.basename(f[:-4]).split("_")
                    o = vcross.process((f[:-4], t, int(fl, 16)))
                    for v in o["viol"]:
                        print(v["key"], "::", v["what"][:400])
                        bad = 1
        else:
            tot, viols, _ = cross_leg(scratch, env, "quick")
            for v in viols:
                if v["key"].startswith("C12|orcc|"):
                    print(v["key"], "::", v["what"][:400])
                    bad = 1
        shutil.rmtree(scratch, ignore_errors=True)
        if not bad:
            print("replayed without violation")
        return bad
    subprocess.run([exe, "--mode", "dump", "--levels", lv, "--vectors", "full", "--targets", r["target"], "--only", r["name"],
                    "--only-flags", str(r["flags"]), "--corpus", corpus_arg(), "--outdir", scratch], env=env, stdout=subprocess.DEVNULL, timeout=600)
    bad = 0
    for f in glob.glob(os.path.join(scratch, "*.idx")):
        if os.path.getsize(f):
            t, fl, _ = os.path.basename(f[:-4]).split("_")
            o = process((f[:-4], t, int(fl, 16)))
            for v in o["viol"]:
                print(v["key"], "::", v["what"][:400])
                bad = 1
    shutil.rmtree(scratch, ignore_errors=True)
    if not bad:
        print("replayed without violation")
    return bad
