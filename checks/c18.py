"""C18 - float opcodes: IEEE with flush-to-zero, identical on every path.
Engine xemu with --classes float on the paths emulation, sse and avx against the
independent reference (ref/orcref.h); plus xprog JIT-vs-emulation over float
programs (n, alignment, chains) for the bit-for-bit agreement of the paths."""
import shutil
import vlib
import c01


def run(ctx):
    tier = ctx["tier"]
    exe = vlib.build_engine("xemu", "plain")
    xprog = vlib.build_engine("xprog", "plain")
    scratch = vlib.scratch_dir("C18")
    env = vlib.scrub_env(scratch=scratch)
    deadline = ctx["deadline"] or (400 if tier == "quick" else 2400)
    res = vlib.Results()
    nsh = 40
    for path in ("emulate", "sse", "avx"):
        args = [["--tier", tier, "--classes", "float", "--path", path, "--shard", i, "--nshards", nsh, "--deadline", int(deadline)] for i in range(nsh)]
        vlib.run_shards(exe, args, env, timeout=deadline * 1.3 + 60, res=res, label="xemu-" + path)
    st1 = dict(res.stats)
    # JIT vs emulation on float programs over n / alignment / 2-D / chains (levels L1 + L3 float + corpus float functions)
    res2 = vlib.Results()
    nsh2 = 48
    levels = "L1,L4,L6"
    args = [["--levels", levels, "--tier", tier, "--targets", "avx,sse", "--classes", "float", "--rounding", 1, "--corpus", c01.corpus_arg(),
             "--shard", i, "--nshards", nsh2, "--deadline", int(deadline)] for i in range(nsh2)]
    vlib.run_shards(xprog, args, env, timeout=deadline * 1.3 + 60, res=res2, label="xprog-float")
    for v in res2.viol:
        v["key"] = v["key"].replace("C01|", "C18|paths|", 1)
    shutil.rmtree(scratch, ignore_errors=True)
    cov = {
        "evaluations": int(st1.get("elements_compared", 0)) + int(res2.stats.get("runs", 0)),
        "distinct_nontrivial": int(st1.get("forms", 0)) + int(res2.stats.get("programs_native", 0)),
        "rule": "(1) every float/double opcode x {x1,x2} x second operand {array, constant, parameter} on the paths emulation, sse-native and "
                "avx-native over all pairs of the structured operand alphabet (56 values per width: zeros, smallest/largest denormals, "
                "smallest normals, +-1, +-2, ties x.5, integers around 2^23/2^24/2^31/2^52/2^53/2^63, +-max, +-inf, quiet and signalling "
                "NaNs with payloads, ordinary normals), each result compared with the reference: exact bits for finite operands, either "
                "operand for min/max of equal values, any NaN where a NaN is due, unspecified cases (NaN into min/max or float->int) "
                "skipped; prefixes n=1..48 must reproduce the full run. (2) float programs of levels %s compiled for avx and sse and run "
                "natively against emulation for every n in 0..N, lead alignment mod 32, 2-D shapes and all-pairs tables of the finite part of the alphabet (cross-path agreement is only defined for finite inputs; NaN results compare equal whatever their payload). "
                "evaluations = result elements compared + native runs; distinct non-trivial = opcode forms + natively compiled programs." % levels,
        "samples": (res.samples + res2.samples)[:6] or [{"note": "none"}],
        "paths": ["emulation", "sse native", "avx native"],
        "float_programs_native": int(res2.stats.get("programs_native", 0)),
        "exhaustive": not (res.incomplete or res2.incomplete),
        "notes": (res.notes + res2.notes)[:6],
    }
    assumptions = ["the caller's MXCSR is the default (round to nearest, no FTZ/DAZ): flushing must come from the code",
                   "the generated-C path is compared with emulation by C04/C07", "operands outside the structured alphabet are not covered",
                   "NaN payload/sign of an invalid operation is not specified; any NaN is accepted there"]
    return "exploration", cov, assumptions, res.viol + res2.viol


def replay(rep):
    """Reference leg: the recorded opcode on the recorded path; path leg: the recorded program through xprog."""
    import os
    import subprocess
    r = rep["replay"]
    scratch = vlib.scratch_dir("C18r")
    env = vlib.scrub_env(scratch=scratch)
    if "opcode" in r:
        exe = vlib.build_engine("xemu", "plain")
        p = subprocess.run([exe, "--tier", "quick", "--classes", "float", "--path", r.get("path", "emulate"), "--only", r["opcode"]],
                           stdout=subprocess.PIPE, env=env, timeout=1200)
    else:
        exe = vlib.build_engine("xprog", "plain")
        fn = os.path.join(scratch, "replay.orc")
        text = r.get("program", "")
        open(fn, "w").write(text if text.startswith(".function") else "")
        p = subprocess.run([exe, "--levels", "L4", "--corpus", fn, "--classes", "float", "--targets", r.get("target", "avx,sse")],
                           stdout=subprocess.PIPE, env=env, timeout=1200)
    shutil.rmtree(scratch, ignore_errors=True)
    known = {f["key"] for f in vlib.load_findings() if f.get("property") == "C18"}
    bad = []
    for l in p.stdout.decode().splitlines():
        if '"t":"viol"' in l:
            import json
            k = json.loads(l)["key"].replace("C01|", "C18|paths|", 1)
            if k not in known:
                bad.append(l)
    print("\n".join(b[:500] for b in bad[:5]) if bad else "replayed without (unlisted) violation")
    return 1 if bad else 0
