"""C06 - every fallback path gives the emulation result.  Fault enumeration:
the engine interposes mkstemp/ftruncate/mmap and enumerates (A) all sets of
<= k failing call indexes and (B) persistent failure of every subset of call
classes, crossed with configuration vectors; one process per vector."""
import glob
import os
import shutil
import time
import vlib


def run(ctx):
    tier = ctx["tier"]
    exe = vlib.build_engine("xfault", "plain")
    scratch = vlib.scratch_dir("C06")
    env = vlib.scrub_env(scratch=scratch)
    deadline = ctx["deadline"] or (300 if tier == "quick" else 1800)
    nsh = vlib.NCPU * 3
    args = [["--tier", tier, "--shard", i, "--nshards", nsh, "--scratch", scratch] for i in range(nsh)]
    t_start = time.time()
    res = vlib.run_shards(exe, args, env, timeout=deadline, label="xfault")
    shutil.rmtree(scratch, ignore_errors=True)
    # with every directory variable unset the library falls back to /tmp, and under ORC_CODE=debug it keeps its
    # code-memory file by design: remove the files this run left there (own files created since the start only)
    for f in glob.glob("/tmp/orcexec.*"):
        try:
            st_ = os.lstat(f)
            if st_.st_uid == os.getuid() and st_.st_mtime >= t_start - 2:
                os.unlink(f)
        except OSError:
            pass
    st = res.stats
    n = int(st.get("vectors", 0))
    cov = {
        "evaluations": n,
        "distinct_nontrivial": int(st.get("ended_fallback", 0)),
        "rule": "one forked process per (configuration, fault vector): configurations = {XDG_RUNTIME_DIR/HOME/TMPDIR set patterns} x ORC_CODE in "
                "{unset, emulate, backup, debug, backup+emulate} x backup function {absent, present} x executor {program-attached, code-only} "
                "x program {addw, no rule on the target, register exhaustion, invalid}; fault vectors = every set of <= %d failing call "
                "indexes among the first 40 mkstemp/ftruncate/mmap calls (sequence discovered as it unfolds) plus persistent failure of "
                "every non-empty subset of the 5 call classes, from the start and from after orc_init(). Each process initialises, then "
                "compiles+runs+frees 8 times. Non-trivial = vectors that ended on a fallback path (no native code)." % (2 if tier == "quick" else 3),
        "samples": res.samples or [{"note": "none"}],
        "configurations": int(st.get("configs", 0)),
        "ended_native": int(st.get("ended_native", 0)),
        "oracles": ["no crash", "run result equals the independently computed expectation, or the backup ran exactly once and its result is in "
                    "place", "valid programs never get a fatal result", "open descriptors and mappings after 8 uses do not exceed those after 2"],
        "exhaustive": not res.incomplete,
        "notes": res.notes[:5],
    }
    assumptions = ["mkstemp/ftruncate/mmap are the only system services involved in acquiring executable memory (read from orccodemem.c); "
                   "they are interposed at link time, libc-internal uses are unaffected", "failure = the documented error return of each call"]
    return "fault_enumeration", cov, assumptions, res.viol


def replay(rep):
    print("deterministic enumeration; re-run bin/check C06. failing vector:", rep["replay"])
    return 0
