"""C13 - bytecode round trip.  Enumerated program spaces + boundary encodings
(engine xbc, ASan+bounds build): structure, re-encoding and behaviour equal."""
import shutil
import vlib
import c01


def run(ctx):
    tier = ctx["tier"]
    exe = vlib.build_engine("xbc", "asan")
    scratch = vlib.scratch_dir("C13")
    env = vlib.scrub_env(scratch=scratch)
    levels = "L1,L3,L4,L5" if tier == "quick" else "L1,L2,L3,L4,L5"
    nsh = vlib.NCPU * 2
    deadline = ctx["deadline"] or (300 if tier == "quick" else 1200)
    args = [["--levels", levels, "--corpus", c01.corpus_arg(), "--shard", i, "--nshards", nsh] for i in range(nsh)]
    res = vlib.run_shards(exe, args, env, timeout=deadline, label="xbc")
    shutil.rmtree(scratch, ignore_errors=True)
    st = res.stats
    cov = {
        "evaluations": int(st.get("programs", 0)),
        "distinct_nontrivial": int(st.get("programs", 0)),
        "rule": "every program of levels %s (integer and float) plus boundary encodings (every boundary constant of every size incl. float "
                "bit patterns, length fields 1/2/253/254/255/256/257/1000/65534 for n, m, n_multiple, n_min, n_max and the name, declared "
                "alignments 1..128, all variable slots with every parameter class, 1/50/99/100 instructions) is encoded, decoded, compared "
                "structurally (classes, sizes, alignments, constants, parameter classes, 2-D/n/m, instruction order, opcodes, operands, "
                "x2/x4), re-encoded (bytes equal) and emulated against the original on two input sets. Programs are distinct descriptors; "
                "all are non-trivial (>= 1 instruction)." % levels,
        "samples": res.samples or [{"note": "none"}],
        "bytecode_bytes": int(st.get("bytecode_bytes", 0)),
        "emulation_comparisons": int(st.get("emulation_comparisons", 0)),
        "exhaustive": not res.incomplete,
        "notes": res.notes[:5],
    }
    assumptions = ["variable and type names are not carried by the format and are not compared", "values outside what the format can "
                   "represent (integers above 65534 in length fields) are outside the statement", "ASan + -fsanitize=bounds as memory monitor"]
    return "exploration", cov, assumptions, res.viol


def replay(rep):
    print("re-run: bin/check C13 (deterministic enumeration); failing program:\n" + str(rep["replay"].get("program")))
    return 0
