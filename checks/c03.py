"""C03 - a program touches only the elements it is entitled to (engine xmem):
arrays flush against PROT_NONE pages, read-only sources, exact entitlement."""
import shutil
import vlib
import c01


def run(ctx):
    tier = ctx["tier"]
    exe = vlib.build_engine("xmem", "plain")
    scratch = vlib.scratch_dir("C03")
    env = vlib.scrub_env(scratch=scratch)
    nsh = vlib.NCPU * 4
    levels = "L1,L4,L5,L6" if tier == "quick" else "L1,L2,L3,L4,L5,L6"
    deadline = ctx["deadline"] or (400 if tier == "quick" else 2400)
    args = [["--tier", tier, "--levels", levels, "--corpus", c01.corpus_arg(), "--shard", i, "--nshards", nsh] for i in range(nsh)]
    res = vlib.run_shards(exe, args, env, timeout=deadline, label="xmem")
    shutil.rmtree(scratch, ignore_errors=True)
    st = res.stats
    cov = {
        "evaluations": int(st.get("runs", 0)),
        "distinct_nontrivial": int(st.get("compiled", 0)),
        "rule": "programs of levels %s (incl. loadoff/loadup/ldres forms with their constants and parameters, float programs, corpus) x "
                "execution path {avx, sse, mmx native code, emulation} x every n in 0..N x placement {first entitled byte right after a "
                "PROT_NONE page, last entitled byte right before one} x rows m in {1,2,3} with unmapped gaps between rows (stride 8192) x "
                "parameter choices; each array has exactly the entitled number of elements (read sets of the opcode definitions), sources "
                "are mapped read-only; oracle = no fault + no changed byte in the destination page outside elements 0..n-1. "
                "Non-trivial/distinct = (program, path) pairs that compiled and ran." % levels,
        "samples": res.samples or [{"note": "none"}],
        "programs": int(st.get("programs", 0)),
        "emulation_runs": int(st.get("emulation_runs", 0)),
        "array_mappings_across_4GiB_summed_over_workers": int(st.get("regions_across_4GiB", 0)),
        "exhaustive": not res.incomplete,
        "notes": res.notes[:5],
    }
    assumptions = ["entitlement of ldreslin includes index+1 for every element (as the emulator and the table's pseudo code read it)",
                   "programs that declare an alignment larger than the element size are placed on that alignment, so their last byte is not flush",
                   "the generated-C path is exercised by C04/C07 without guard pages", "rows larger than one page are outside this harness"]
    return "exploration", cov, assumptions, res.viol


def replay(rep):
    print("re-run bin/check C03; failing case:", rep["replay"])
    return 0
