"""C05 - compilation terminates, classifies its result, never corrupts memory
(engine xcomp, ASan+bounds build, supervised worker with watchdog)."""
import shutil
import vlib


def run(ctx):
    tier = ctx["tier"]
    exe = vlib.build_engine("xcomp", "asan")
    scratch = vlib.scratch_dir("C05")
    env = vlib.scrub_env(scratch=scratch)
    deadline = ctx["deadline"] or (600 if tier == "quick" else 3000)
    res = vlib.Results()
    for space, nsh in ((4, 16), (2, 32), (3, 32), (5, 64), (1, 96)):
        args = [["--tier", tier, "--space", space, "--shard", i, "--nshards", nsh] for i in range(nsh)]
        vlib.run_shards(exe, args, env, timeout=deadline, res=res, label="xcomp-%d" % space)
    shutil.rmtree(scratch, ignore_errors=True)
    st = res.stats
    cov = {
        "evaluations": int(st.get("compiles", 0)),
        "distinct_nontrivial": int(st.get("programs", 0)),
        "rule": "space 1: every opcode x dest kind {dest, source, temp, constant, accumulator} x source kinds {dest, source, initialised temp, "
                "uninitialised temp, constant, parameter, accumulator}^(1|2) x {matching, wrong} sizes x prefix {none, x2, x4, x2|x4}%s; "
                "space 2: program lengths {1..100 at every table boundary} x 5 instruction shapes x 4 sizes, 1..12 arrays in every dest/source "
                "split, every variable class from 1 to limit+1, 1..24 rule constants, bulky rules towards the 64 KiB code buffer; space 3: 20 "
                "representative opcodes x flag vectors (x86: subsets of the 12 low flag bits; others: 0, all ones, default, single-bit "
                "deviations). Every program is compiled for all 8 registered targets (sse, avx, mmx, c, c64x-c, neon, altivec, mips) under a "
                "20 s watchdog. evaluations = compile calls; distinct non-trivial = programs." % ("" if tier == "thorough" else " (two thirds of the exotic two-source corners thinned out in the quick tier)"),
        "samples": res.samples or [{"note": "none"}],
        "results": {"successful": int(st.get("successful", 0)), "non_fatal_failures": int(st.get("nonfatal", 0)), "fatal": int(st.get("fatal", 0))},
        "native_runs": int(st.get("native_runs", 0)),
        "emulation_fallback_runs": int(st.get("emulation_runs", 0)),
        "exhaustive": not res.incomplete,
        "notes": res.notes[:5],
    }
    assumptions = ["AddressSanitizer + -fsanitize=bounds see heap/stack/array-index errors; other intra-object overwrites only through their consequences",
                   "'callable' is checked by calling successful code of host-executable targets on small inputs; non-native targets are compiled only",
                   "result classes: successful < 0x100, fatal >= 0x200"]
    return "exploration", cov, assumptions, res.viol


def replay(rep):
    print("re-run bin/check C05; failing case:", rep["replay"])
    return 0
