"""C01 - native code == emulation.  Bounded exhaustive S-prog x S-in exploration
(engine xprog): program levels x {avx,sse,mmx} x n sweep x alignment x 2-D
shapes x value tables."""
import glob
import os
import time

import vlib

CORPUS = ["testsuite/test.orc", "orc/orcfunctions.orc"] + sorted(
    os.path.relpath(f, vlib.REPO) for f in glob.glob(os.path.join(vlib.REPO, "examples", "*.orc")))


# programs that exposed a defect and belong to no enumerated family (one per function, with the reason)
EXTRA = os.path.join(os.path.dirname(os.path.dirname(os.path.abspath(__file__))), "corpus", "c01_extra.orc")


def corpus_arg():
    return ":".join(os.path.join(vlib.REPO, f) for f in CORPUS if os.path.exists(os.path.join(vlib.REPO, f)))


def run(ctx):
    tier = ctx["tier"]
    exe = vlib.build_engine("xprog", "plain")
    scratch = vlib.scratch_dir("C01")
    env = vlib.scrub_env(scratch=scratch)
    if tier == "quick":
        levels, deadline, nsh = "L1,L2,L3,L4,L5,L6,LB,LW", ctx["deadline"] or 420, 96
    else:
        levels, deadline, nsh = "L1,L2,L3,L4,L5,L6,LB,LW", ctx["deadline"] or 2400, 128
    args = [["--levels", levels, "--tier", tier, "--targets", "avx,sse,mmx", "--classes", "int",
             "--corpus", corpus_arg() + ":" + EXTRA, "--shard", i, "--nshards", nsh, "--deadline", int(deadline)] for i in range(nsh)]
    res = vlib.run_shards(exe, args, env, timeout=deadline * 1.5 + 300, label="xprog")
    # the other flag sets of each target: every 64-bit feature subset (code identical to an already compared vector is skipped),
    # reduced input sweep.  The same leg is C11's second oracle; the statement of C01 quantifies over flag sets as well.
    args2 = [["--levels", "L1,L4,L5,L6" if tier == "quick" else "L1,L2,L4,L5,L6", "--tier", tier, "--targets", "sse,avx,mmx", "--classes", "int",
              "--corpus", corpus_arg(), "--prop", "C01", "--featsets", 1, "--lite", 1, "--shard", i, "--nshards", nsh,
              "--deadline", int(deadline)] for i in range(nsh)]
    res2 = vlib.run_shards(exe, args2, env, timeout=deadline * 1.5 + 300, label="xprog-featsets")
    # collapse over flag vectors: one key per (target, program shape), the smallest failing set kept
    best = {}
    for v in res2.viol:
        parts = v["key"].split("|")
        if len(parts) > 2 and "/0x" in parts[1]:
            t, fl = parts[1].split("/0x")
            k = "|".join([parts[0], t + "-flags"] + parts[2:])
            n = bin(int(fl, 16)).count("1")
            if k not in best or n < best[k][0]:
                v = dict(v)
                v["key"] = k
                v["what"] = "under flag vector 0x%s: %s" % (fl, v["what"])
                best[k] = (n, v)
        else:
            best[v["key"]] = (0, v)
    viol2 = [b[1] for b in best.values()]
    import shutil
    shutil.rmtree(scratch, ignore_errors=True)
    st = res.stats
    cov = {
        "evaluations": int(st.get("runs", 0)),
        "distinct_nontrivial": int(st.get("programs_native", 0)),
        "rule": "programs of levels %s enumerated completely from the live opcode table (L1 every single-opcode form x operand kinds x "
                "x2/x4 x 1-D/2-D x declared alignment; L2 every size-compatible opcode pair in 3 register shapes; L3 length-3 chains over a "
                "representative alphabet; L4 the .orc corpus; L5 register-pressure / many-array / resampling / constant-n programs; L6 every plain opcode with 7, 9 and 12 filler "
                "temporaries live across it, so that its operands sit in the upper registers), each compiled for "
                "avx, sse and mmx and run natively vs emulation for every n in 0..N, every lead-array offset mod 32 (step = element size), "
                "2-D shapes m in {0,1,2,3} x stride gaps, and value tables holding all tuples of the per-size alphabets (all 256 byte values; "
                "boundary alphabets for 16/32/64 bit) for several parameter values. A program is non-trivial when at least one target produced "
                "native code that was compared on non-empty inputs; distinct = distinct program descriptors." % levels,
        "samples": res.samples or [{"note": "no sample emitted"}],
        "programs": int(st.get("programs", 0)),
        "program_space_size": int(st.get("space_size", 0)),
        "compiled_program_target_pairs": int(st.get("compiled", 0)),
        "not_compiled_pairs": int(st.get("nocompile", 0)),
        "elements_compared": int(st.get("elements", 0)),
        "feature_subset_leg": {"runs": int(res2.stats.get("runs", 0)), "compiled_program_vector_pairs": int(res2.stats.get("compiled", 0)),
                               "identical_code_skipped": int(res2.stats.get("same_code_skipped", 0)),
                               "rule": "levels L1,L4,L5,L6 (thorough: +L2) x every subset of each target's feature bits in 64-bit mode; vectors whose "
                                       "machine code is byte-identical to one already run are skipped; reduced sweep (n, 3 lead offsets, value tables)"},
        "exhaustive": not (res.incomplete or res2.incomplete),
        "notes": res.notes[:10],
    }
    assumptions = [
        "emulation (orc_executor_emulate) is the oracle; its own meaning is C02's subject",
        "32/64-bit lanes use boundary alphabets, not all values; float programs are C18's subject",
        "shift counts, loadoff offsets and resampling parameters are kept inside the documented ranges",
        "host CPU executes AVX2/SSE4.2/MMX natively",
    ]
    return "exploration", cov, assumptions, res.viol + viol2


def replay(rep):
    """Re-run the recorded program (its whole input sweep) on the recorded target."""
    import subprocess
    import shutil
    exe = vlib.build_engine("xprog", "plain")
    scratch = vlib.scratch_dir("C01r")
    env = vlib.scrub_env(scratch=scratch)
    r = rep["replay"]
    text = r.get("program") or r.get("desc")
    fn = os.path.join(scratch, "replay.orc")
    open(fn, "w").write(text if text.startswith(".function") else "")
    args = [exe, "--levels", "L4", "--corpus", fn, "--classes", "both", "--targets", r.get("target", "avx,sse,mmx")]
    p = subprocess.run(args, stdout=subprocess.PIPE, env=env, timeout=600)
    shutil.rmtree(scratch, ignore_errors=True)
    bad = [l for l in p.stdout.decode().splitlines() if '"t":"viol"' in l]
    print("\n".join(b[:600] for b in bad[:5]) if bad else "replayed without violation")
    return 1 if bad else 0
