"""C11 - target feature flags bound the instructions that are emitted.
S-conf x S-prog: every subset of each x86 target's feature bits x {64,32-bit}
x frame pointer x short jumps, for every program of the enumerated levels.

Oracle 1 (ISA): engine xasm reduces every listing to its distinct instruction
forms per flag vector; the minimal ISA level of every distinct form is derived
by probing GNU as with a chain of restricted -march settings (no hand-written
table), and compared with the flag vector.
Oracle 2 (results): engine xprog runs the code of every 64-bit flag vector
that still compiles against emulation (host executes every subset)."""
import concurrent.futures as cf
import os
import shutil

import vlib
import vasm
from c01 import corpus_arg

B64, BFP, BSJ = 1 << 9, 1 << 7, 1 << 8
LV = {l: i for i, l in enumerate(vasm.LEVELS)}

# flag bit -> ISA levels it makes available, per target
SSE_MAP = [(1 << 0, ["base", "sse", "sse2"]), (1 << 1, ["sse3"]), (1 << 2, ["ssse3"]), (1 << 3, ["sse4.1"]), (1 << 4, ["sse4.2"])]
# MMXEXT is what orc sets when cpuid reports SSE2 (or AMD's extensions): the SSE/SSE2 additions on mm registers
MMX_MAP = [(1 << 0, ["base"]), (1 << 1, ["sse", "sse2"]), (1 << 4, ["ssse3"]), (1 << 5, ["sse4.1"]), (1 << 6, ["sse4.2"])]
# an AVX CPU has every SSE level
AVX_MAP = [(1 << 10, ["base", "sse", "sse2", "sse3", "ssse3", "sse4.1", "sse4.2", "avx"]), (1 << 11, ["avx2"])]
MAPS = {"sse": SSE_MAP, "mmx": MMX_MAP, "avx": AVX_MAP}
FLAGNAME = {"sse": {0: "SSE2", 1: "SSE3", 2: "SSSE3", 3: "SSE4_1", 4: "SSE4_2"},
            "mmx": {0: "MMX", 1: "MMXEXT", 2: "3DNOW", 3: "3DNOWEXT", 4: "SSSE3", 5: "SSE4_1", 6: "SSE4_2"},
            "avx": {10: "AVX", 11: "AVX2"}}


def allowed_levels(target, flags):
    ok = {0}		# plain integer instructions
    for bit, lv in MAPS[target]:
        if flags & bit:
            ok.update(LV[l] for l in lv)
    return ok


def flagstr(target, flags):
    names = [n for b, n in sorted(FLAGNAME[target].items()) if flags & (1 << b)]
    return "+".join(names) if names else "none"


SSSE3_38 = set(range(0x00, 0x0c)) | {0x1c, 0x1d, 0x1e}	# pshufb phadd* pmaddubsw phsub* psign* pmulhrsw pabs*
LEGACY_PREFIX = {0x66, 0xf2, 0xf3, 0x2e, 0x36, 0x3e, 0x26, 0x64, 0x65, 0x67}


def encoding_leg(xasm, env, scratch, tier):
    import glob
    import subprocess
    d = os.path.join(scratch, "enc")
    os.makedirs(d)
    nsh = 16
    res = vlib.Results()
    levels = "L1,L4,L5,L6" if tier == "quick" else "L1,L2,L3,L4,L5,L6"
    args = [["--mode", "dump", "--levels", levels, "--vectors", "minimal", "--targets", "sse,mmx", "--classes", "both",
             "--corpus", corpus_arg(), "--shard", i, "--nshards", nsh, "--outdir", d] for i in range(nsh)]
    vlib.run_shards(xasm, args, env, timeout=3600, res=res, label="xasm-enc")
    out = {"viol": [], "instructions": 0, "functions": 0, "flag_vectors": set()}
    seen = set()

    def one(f):
        base = f[:-4]
        t, fl, _ = os.path.basename(base).split("_")
        fl = int(fl, 16)
        if not os.path.getsize(f):
            return t, fl, [], 0, 0
        desc = {}
        for l in open(f):
            k, _, v = l.rstrip("\n").partition("\t")
            desc[k] = v
        ok, errs = vasm.assemble(base + ".bin.s", base + ".bin.o", 64)
        if not ok:
            return t, fl, [("harness", "byte file did not assemble", "")], 0, 0
        p = subprocess.run(["objdump", "-d", "-w", base + ".bin.o"], stdout=subprocess.PIPE)
        has_ssse3 = bool(fl & ((1 << 2) if t == "sse" else (1 << 4)))	# ORC_TARGET_SSE_SSSE3 / ORC_TARGET_MMX_SSSE3
        bad = []
        cur = None
        n = 0
        nf = 0
        for line in p.stdout.decode(errors="replace").split("\n"):
            m = vasm.HDR.match(line)
            if m:
                cur = m.group(1)
                nf += 1
                continue
            parts = line.split("\t")
            if len(parts) < 3:
                continue
            try:
                bs = [int(x, 16) for x in parts[1].split()]
            except ValueError:
                continue
            n += 1
            i = 0
            while i < len(bs) and (bs[i] in LEGACY_PREFIX or 0x40 <= bs[i] <= 0x4f):
                i += 1
            if i + 2 < len(bs) and bs[i] == 0x0f and bs[i + 1] in (0x38, 0x3a):
                op = bs[i + 2]
                allowed = has_ssse3 and ((bs[i + 1] == 0x38 and op in SSSE3_38) or (bs[i + 1] == 0x3a and op == 0x0f))
                if not allowed:
                    bad.append((" ".join(parts[2].split()), "0f %02x %02x" % (bs[i + 1], op), desc.get(cur, cur)))
        for x in (base + ".bin.o",):
            if os.path.exists(x):
                os.unlink(x)
        return t, fl, bad, n, nf

    files = sorted(glob.glob(os.path.join(d, "*.idx")))
    with cf.ThreadPoolExecutor(vlib.NCPU) as ex:
        for t, fl, bad, n, nf in ex.map(one, files):
            out["instructions"] += n
            out["functions"] += nf
            out["flag_vectors"].add((t, fl))
            for text, enc, prog in bad:
                mn = text.split()[0] if text else "?"
                key = "C11|%s|%s|encoding=%s" % (t, mn, enc)
                if key in seen:
                    continue
                seen.add(key)
                out["viol"].append({"t": "viol", "key": key,
                                    "what": "target %s compiled with flags 0x%x (%s) emits `%s` in the encoding %s: the three-byte opcode maps hold only SSSE3 and "
                                            "later instructions (the mnemonic also has an older encoding, which is why the listing looks fine); program: %s"
                                            % (t, fl, flagstr(t, fl), text, enc, prog),
                                    "replay": {"target": t, "flags": fl, "form": text, "program": prog, "encoding": enc}})
    out["flag_vectors"] = len(out["flag_vectors"])
    shutil.rmtree(d, ignore_errors=True)
    return out


def run(ctx):
    tier = ctx["tier"]
    xasm = vlib.build_engine("xasm", "plain")
    xprog = vlib.build_engine("xprog", "plain")
    scratch = vlib.scratch_dir("C11")
    env = vlib.scrub_env(scratch=scratch)
    nsh = 32
    levels = "L1,L4,L5" if tier == "quick" else "L1,L2,L3,L4,L5"
    vectors = "lattice" if tier == "quick" else "full"
    forms = {}		# (target, flags) -> {form: prog}

    def on_line(line):
        if '"t":"form"' not in line:
            return False
        import json
        r = json.loads(line)
        forms.setdefault((r["target"], r["flags"]), {}).setdefault(r["form"], r["prog"])
        return True

    res = vlib.Results()
    args = [["--mode", "forms", "--levels", levels, "--vectors", vectors, "--targets", "sse,avx,mmx", "--classes", "both",
             "--corpus", corpus_arg(), "--shard", i, "--nshards", nsh] for i in range(nsh)]
    vlib.run_shards(xasm, args, env, timeout=3600, res=res, label="xasm", on_line=on_line)

    # classify every distinct (form, bits) once
    distinct = {}
    for (t, fl), fs in forms.items():
        bits = 64 if fl & B64 else 32
        for f in fs:
            distinct.setdefault((f, bits), None)
    keys = sorted(distinct)
    with cf.ThreadPoolExecutor(vlib.NCPU) as ex:
        for k, r in zip(keys, ex.map(lambda k: vasm.isa_level(k[0], k[1], scratch), keys)):
            distinct[k] = r
    viols = []
    nchecked = 0
    lvl_hist = {}
    for (t, fl), fs in sorted(forms.items()):
        bits = 64 if fl & B64 else 32
        ok = allowed_levels(t, fl)
        for f, prog in sorted(fs.items()):
            lvl, msg = distinct[(f, bits)]
            nchecked += 1
            mn = f.split()[0]
            if lvl is None:
                viols.append({"t": "viol", "key": "C11|%s|%s|no-such-instruction|flags=%s" % (t, f, flagstr(t, fl)),
                              "what": "target %s flags 0x%x (%s, %d-bit): listing contains `%s`, which GNU as accepts at no ISA level up to AVX2 (%s); program: %s"
                                      % (t, fl, flagstr(t, fl), bits, f, (msg or "").strip().splitlines()[-1][:160] if msg else "", prog),
                              "replay": {"target": t, "flags": fl, "form": f, "program": prog}})
                continue
            lvl_hist[vasm.LEVELS[lvl]] = lvl_hist.get(vasm.LEVELS[lvl], 0) + 1
            if lvl not in ok:
                viols.append({"t": "viol", "key": "C11|%s|%s|needs=%s|flags=%s" % (t, mn, vasm.LEVELS[lvl], flagstr(t, fl)),
                              "what": "target %s compiled with flags 0x%x (%s, %d-bit) emits `%s`, an instruction of ISA level %s whose flag is not in the set; program: %s"
                                      % (t, fl, flagstr(t, fl), bits, f, vasm.LEVELS[lvl], prog),
                              "replay": {"target": t, "flags": fl, "form": f, "level": vasm.LEVELS[lvl], "program": prog}})
    # oracle 1b: the encoding, not the mnemonic.  Some mnemonics have an old and a new encoding (pextrw: 66 0F C5 is SSE2,
    # 66 0F 3A 15 is SSE4.1), and GNU as / objdump show both alike.  Every legacy-encoded instruction in the three-byte
    # opcode maps 0F 38 / 0F 3A is SSSE3 or later, so under flag vectors without those levels the emitted *bytes* must
    # not use these maps (SSSE3 vectors: only the SSSE3 opcodes of the maps).
    enc = encoding_leg(xasm, env, scratch, tier)
    viols.extend(enc["viol"])
    # keep one violation per (target, mnemonic, level): the smallest flag set
    best = {}
    for v in viols:
        k3 = "|".join(v["key"].split("|")[:4])
        if k3 not in best or bin(v["replay"]["flags"]).count("1") < bin(best[k3]["replay"]["flags"]).count("1"):
            best[k3] = v
    viols = []
    for k3, v in sorted(best.items()):
        v = dict(v)
        v["key"] = k3
        viols.append(v)

    # oracle 2: results under every 64-bit feature subset
    res2 = vlib.Results()
    deadline = ctx["deadline"] or (600 if tier == "quick" else 3000)
    nsh2 = 96
    args2 = [["--levels", "L1,L4,L5,L6" if tier == "quick" else "L1,L2,L4,L5,L6", "--tier", tier, "--targets", "sse,avx,mmx", "--classes", "int",
              "--corpus", corpus_arg(), "--prop", "C11", "--featsets", 1, "--lite", 1, "--shard", i, "--nshards", nsh2,
              "--deadline", int(deadline)] for i in range(nsh2)]
    vlib.run_shards(xprog, args2, env, timeout=deadline * 1.5 + 300, res=res2, label="xprog")
    # collapse run violations over flag sets: key without the flag vector, smallest set kept
    best = {}
    for v in res2.viol:
        parts = v["key"].split("|")
        if len(parts) > 2 and "/0x" in parts[1]:
            t, fl = parts[1].split("/0x")
            fl = int(fl, 16)
            k = "|".join([parts[0], t + "-run"] + parts[2:])
            if k not in best or bin(fl).count("1") < best[k][0]:
                v = dict(v)
                v["key"] = k
                v["what"] = "under flags %s: %s" % (flagstr(t, fl), v["what"])
                best[k] = (bin(fl).count("1"), v)
        else:
            best[v["key"]] = (0, v)
    viols += [b[1] for _, b in sorted(best.items())]
    shutil.rmtree(scratch, ignore_errors=True)

    st, st2 = res.stats, res2.stats
    cov = {
        "evaluations": int(st.get("compiles", 0)),
        "distinct_nontrivial": len(distinct),
        "rule": "every program of levels %s compiled under every subset of each x86 target's feature bits (sse: SSE2..SSE4_2 = 32; avx: AVX, AVX2 = 4; "
                "mmx: MMX, MMXEXT, 3DNOW, SSSE3, SSE4_1, SSE4_2 = 64) x {64,32-bit}%s; every successful "
                "compile's listing is reduced to instruction forms (mnemonic + operand classes); each distinct form's minimal ISA level is the "
                "first of base<sse<sse2<sse3<ssse3<sse4.1<sse4.2<avx<avx2 under which GNU as -march=generic{32,64}+nosse+<level> assembles it; "
                "a form whose level is not granted by the flag vector is a violation; distinct_nontrivial = distinct (form, bits) classified. "
                "Second oracle: every 64-bit subset that compiles is run against emulation over n sweep x alignment x value tables (a subset whose "
                "machine code is byte-identical to one already run for the same program is not run again)." % (levels, " x {frame pointer} x {long, short jumps}" if vectors == "full" else ""),
        "samples": [{"flag_vector": "%s 0x%x" % k, "forms": len(v), "example": sorted(v)[len(v) // 2]} for k, v in sorted(forms.items())[5::97]][:8]
                   + res2.samples[:3],
        "flag_vectors_with_code": len(forms),
        "encoding_leg": {"instructions_decoded": enc["instructions"], "functions": enc["functions"], "flag_vectors": enc["flag_vectors"],
                         "rule": "sse under {SSE2, +SSE3, +SSSE3} and mmx under {MMX+MMXEXT, +SSSE3}, 64-bit: the emitted bytes of every program of the "
                                 "levels are disassembled and no instruction may use the 0F 38 / 0F 3A opcode maps (with SSSE3: only the SSSE3 opcodes)"},
        "flag_vectors_enumerated": int(st.get("flag_vectors", 0)),
        "compiles": int(st.get("compiles", 0)),
        "compiled_ok": int(st.get("compiled_ok", 0)),
        "listing_lines": int(st.get("listing_lines", 0)),
        "form_vector_pairs_checked": nchecked,
        "forms_by_level": lvl_hist,
        "program_space_size": int(st.get("space_size", 0)),
        "runs_native_vs_emulation": int(st2.get("runs", 0)),
        "run_compiled_pairs": int(st2.get("compiled", 0)),
        "run_pairs_skipped_identical_code": int(st2.get("same_code_skipped", 0)),
        "run_elements_compared": int(st2.get("elements", 0)),
        "exhaustive": not (res.incomplete or res2.incomplete),
        "notes": (res.notes + res2.notes)[:10],
    }
    assumptions = [
        "GNU as 2.40's -march feature gating is the ISA-level reference (independent of orc's opcode tables)",
        "flag->level map: sse SSE2 grants base/sse/sse2, SSE3, SSSE3, SSE4_1, SSE4_2 one level each; mmx MMX grants base, MMXEXT grants the "
        "SSE/SSE2 additions on mm registers (orc sets MMXEXT from cpuid's SSE2 bit), SSSE3/SSE4_1/SSE4_2 one level each; avx AVX grants every "
        "SSE level and avx, AVX2 grants avx2",
        "32-bit code is classified but not run (64-bit host); float programs are classified, their results are C18's subject",
    ]
    return "exploration", cov, assumptions, viols + res.viol


def replay(rep):
    import subprocess
    r = rep["replay"]
    scratch = vlib.scratch_dir("C11r")
    env = vlib.scrub_env(scratch=scratch)
    bad = 0
    if "form" in r:
        xasm = vlib.build_engine("xasm", "plain")
        name = r["program"].split(";")[0].replace(".function ", "").strip()
        lv = "L" + name[2] if name.startswith("vL") else "L4"
        p = subprocess.run([xasm, "--mode", "forms", "--levels", lv, "--vectors", "full", "--targets", r["target"], "--only-flags", str(r["flags"]),
                            "--corpus", corpus_arg()] + (["--only", name] if name.startswith("vL") else []), env=env, stdout=subprocess.PIPE, timeout=900)
        import json
        bits = 64 if r["flags"] & B64 else 32
        ok = allowed_levels(r["target"], r["flags"])
        for l in p.stdout.decode().splitlines():
            if '"t":"form"' in l:
                f = json.loads(l)["form"]
                lvl, _ = vasm.isa_level(f, bits, scratch)
                if lvl is None or lvl not in ok:
                    print("flags %s: `%s` needs %s" % (flagstr(r["target"], r["flags"]), f, vasm.LEVELS[lvl] if lvl is not None else "nothing gas knows"))
                    bad = 1
    else:
        xprog = vlib.build_engine("xprog", "plain")
        fn = os.path.join(scratch, "replay.orc")
        open(fn, "w").write(r.get("program", ""))
        p = subprocess.run([xprog, "--levels", "L4", "--corpus", fn, "--classes", "both", "--targets", r["target"], "--prop", "C11", "--featsets", "1",
                            "--only-flags", str(r.get("flags", -1))], env=env, stdout=subprocess.PIPE, timeout=900)
        for l in p.stdout.decode().splitlines():
            if '"t":"viol"' in l:
                print(l[:500])
                bad = 1
    shutil.rmtree(scratch, ignore_errors=True)
    if not bad:
        print("replayed without violation")
    return bad
