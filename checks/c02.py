"""C02 - every opcode means what the reference says (engine xemu on the
emulation path against ref/orcref.h) + static comparison of the live opcode
table with doc/opcode_table.xml."""
import os
import re
import shutil
import subprocess
import vlib


def doc_rows():
    t = open(os.path.join(vlib.REPO, "doc", "opcode_table.xml")).read()
    rows = []
    for r in re.findall(r"<row>(.*?)</row>", t, re.S)[1:]:
        e = [x.replace("&lt;", "<").replace("&gt;", ">").replace("&amp;", "&") for x in re.findall(r"<entry>(.*?)</entry>", r, re.S)]
        if e:
            rows.append(e)
    return rows


UNSIGNED_FAMILIES = ("addus", "subus", "avgu", "maxu", "minu", "mulhu", "shru", "mulu", "convub", "convuw", "convul", "convuus", "convuss", "divluw", "div255w")


def pseudo_check(env, docs, live):
    """Evaluate the pseudo-code column of doc/opcode_table.xml literally (where it is an expression) on a complete small operand
    table and compare with the emulator (engine xdump).  Disagreement = the opcode reference and the implementation differ."""
    exe = vlib.build_engine("xdump", "plain")
    out = subprocess.run([exe], stdout=subprocess.PIPE, env=env, timeout=600).stdout.decode().split("\n")
    funcs = {}
    for name, r in docs.items():
        if name not in live:
            continue
        code = r[5] if len(r) > 5 else ""
        if not code or code in ("special", "scalar") or "array" in code or code.startswith("+=") or "sqrt" in code:
            continue
        ds = int(live[name][0])
        ss = int(live[name][2])
        signed_dst = not (name.startswith(("addus", "subus", "convsus", "convuus")))
        lo, hi = (-(1 << (ds * 8 - 1)), (1 << (ds * 8 - 1)) - 1) if signed_dst else (0, (1 << (ds * 8)) - 1)
        py = code
        m = re.match(r"^\((.*)\) \? (.*) : (.*)$", py)
        if m:
            py = "((%s) if (%s) else (%s))" % (m.group(2), m.group(1), m.group(3))
        py = py.replace("a/255", "a//255").replace("a/(b & 255)", "a//(b & 255)")
        py = re.sub(r"clamp\(([^,()]*(?:\([^()]*\))?[^,()]*)\)", lambda mm: "clamp(%s,%d,%d)" % (mm.group(1), lo, hi), py)
        try:
            f = eval("lambda a, b, clamp, sign: " + py)
        except SyntaxError:
            continue
        funcs[name] = (f, ds, ss, name.startswith(UNSIGNED_FAMILIES))
    clamp = lambda x, lo, hi: lo if x < lo else hi if x > hi else x
    sign = lambda x: (x > 0) - (x < 0)
    bad = {}
    n = 0
    for l in out:
        f = l.split()
        if len(f) != 4 or f[0] not in funcs or f[0] in bad:
            continue
        fn, ds, ss, uns = funcs[f[0]]
        ss1 = int(live[f[0]][3]) or ss
        a, b, got = int(f[1], 16), int(f[2], 16), int(f[3], 16)
        if not uns:
            if a >= 1 << (ss * 8 - 1):
                a -= 1 << (ss * 8)
            if b >= 1 << (ss1 * 8 - 1):
                b -= 1 << (ss1 * 8)
        try:
            want = fn(a, b, clamp, sign) & ((1 << (ds * 8)) - 1)
        except ZeroDivisionError:
            continue
        n += 1
        if want != got:
            bad[f[0]] = {"t": "viol", "key": "C02|doc-pseudocode|%s" % f[0],
                         "what": "opcode %s: documented pseudo code '%s' gives 0x%x for a=0x%s b=0x%s, emulation gives 0x%x" % (f[0], docs[f[0]][5], want, f[1], f[2], got),
                         "replay": {"opcode": f[0], "a": f[1], "b": f[2]}}
    return n, list(bad.values())


def run(ctx):
    tier = ctx["tier"]
    exe = vlib.build_engine("xemu", "plain")
    scratch = vlib.scratch_dir("C02")
    env = vlib.scrub_env(scratch=scratch)
    deadline = ctx["deadline"] or (400 if tier == "quick" else 4200)
    nsh = 198
    args = [["--tier", tier, "--classes", "int", "--path", "emulate", "--shard", i, "--nshards", nsh, "--deadline", int(deadline)] for i in range(nsh)]
    res = vlib.run_shards(exe, args, env, timeout=deadline * 1.3 + 60, label="xemu")
    # the float/double opcodes on the emulation path against the same independent reference (the value semantics of
    # flush-to-zero arithmetic are C18's subject and are judged there on all paths; here: the emulator computes the
    # documented function of the operands, e.g. cmplef is <= and not <)
    resf = vlib.Results()
    nshf = 40
    argsf = [["--tier", tier, "--classes", "float", "--path", "emulate", "--shard", i, "--nshards", nshf, "--deadline", int(deadline)] for i in range(nshf)]
    vlib.run_shards(exe, argsf, env, timeout=deadline * 1.3 + 60, res=resf, label="xemu-float")
    for v in resf.viol:
        v["key"] = v["key"].replace("C18|", "C02|float|", 1)
        res.viol.append(v)
    if resf.incomplete:
        res.incomplete = True
    float_stats = {"forms": int(resf.stats.get("forms", 0)), "elements_compared": int(resf.stats.get("elements_compared", 0))}
    # programs: the descriptor interpreted with the per-opcode reference (engine xrefprog) against emulation.  Catches what
    # all execution paths share (the rewriting into loads / stores / broadcasts) and therefore agree on.
    xref = vlib.build_engine("xrefprog", "plain")
    resp = vlib.Results()
    nshp = 32
    lv = "LS,L2,L3,L1,L5,L6"
    argsp = [["--levels", lv, "--shard", i, "--nshards", nshp] for i in range(nshp)]
    vlib.run_shards(xref, argsp, env, timeout=deadline * 1.3 + 60, res=resp, label="xrefprog")
    res.viol.extend(resp.viol)
    if resp.incomplete:
        res.incomplete = True
    prog_stats = {"levels": lv, "programs_interpreted": int(resp.stats.get("ref_programs", 0)),
                  "programs_outside_the_interpreter": int(resp.stats.get("ref_programs_outside_the_interpreter", 0)),
                  "elements_compared": int(resp.stats.get("ref_elements_compared", 0)),
                  "rule": "integer programs of L1, L2 (all size-compatible pairs), L3 (chains) and LS (one parameter or named constant feeding "
                          "two instructions of different element width / prefix, both orders), 1-D, without loads that index or floats (accumulators summed from zero modulo their width); also L5 and L6 programs;"
                          " each interpreted element by element from its descriptor with ref/orcref.h (a scalar operand is the value "
                          "truncated to the element width of the instruction using it, x2/x4 lane-wise) and compared with the bytes "
                          "orc_executor_emulate leaves in every destination, n = 23"}
    # static part: live table vs documented table
    dump = vlib.build_engine("xoptab", "plain")
    live = {}
    for l in subprocess.run([dump], stdout=subprocess.PIPE, env=env, timeout=60).stdout.decode().splitlines():
        f = l.split()
        live[f[0]] = f[1:]
    docs = {r[0]: r for r in doc_rows()}
    for name, sz in live.items():
        if name not in docs:
            res.viol.append({"t": "viol", "key": "C02|doc-missing|%s" % name, "what": "opcode %s is not in doc/opcode_table.xml" % name, "replay": {"opcode": name}})
            continue
        r = docs[name]
        d0, s0, s1 = sz[0], sz[2], sz[3]
        want = [r[1], r[2], r[3].rstrip("S")]
        got = [d0, s0, s1 if s1 != "0" else ""]
        if want != got:
            res.viol.append({"t": "viol", "key": "C02|doc-sizes|%s" % name, "what": "opcode %s: documented sizes dest/src1/src2 %s, live table %s" % (name, want, got),
                             "replay": {"opcode": name}})
    # layer 2: the documented pseudo code, evaluated literally, against the emulator
    n_pseudo, pseudo_viol = pseudo_check(env, docs, live)
    res.viol += pseudo_viol
    for name in docs:
        if name not in live:
            res.viol.append({"t": "viol", "key": "C02|doc-extra|%s" % name, "what": "documented opcode %s does not exist" % name, "replay": {"opcode": name}})
    shutil.rmtree(scratch, ignore_errors=True)
    st = res.stats
    cov = {
        "float_opcodes_on_the_emulation_path": float_stats,
        "program_level_reference": prog_stats,
        "evaluations": int(st.get("elements_compared", 0)),
        "distinct_nontrivial": int(st.get("forms", 0)),
        "rule": "every non-float opcode of the live table x forms {x1,x2,x4} x second operand {array, constant, parameter} is emulated over "
                "operand tables and each result element compared with the independent reference: unary 8/16-bit - all values; binary 8-bit "
                "- all 65536 pairs; binary 16-bit - %s; 32/64-bit - all pairs of the boundary alphabets (41x41); every shift count "
                "0..width-1; accumulators over n in {0,1,15,16,17,33,1000,65536,70001}; loads with offsets/upsampling/resampling index "
                "functions for n in 0..50; prefixes of length 1..48 must reproduce the full-table run (position/n independence). "
                "evaluations = result elements compared; distinct non-trivial = opcode forms checked." %
                ("all 2^32 pairs for the x1 form, B16 x all and all x B16 for x2/x4" if tier == "thorough" else "B16 x all and all x B16"),
        "samples": res.samples or [{"note": "none"}],
        "opcodes": int(st.get("opcodes", 0)),
        "documented_rows_compared": len(docs),
        "documented_pseudo_code_evaluations": n_pseudo,
        "exhaustive": not res.incomplete,
        "notes": res.notes[:5],
    }
    assumptions = ["reference = description column + prose of the opcode reference (conventional meaning at the stated widths), written "
                   "independently of orc/opcodes.h; the pseudo-code column is not used where it contradicts the description",
                   "andn complements its first operand (x86 PANDN sense)", "split: first destination = second (high) half",
                   "ldreslin interpolates with the 8-bit fraction, truncating", "32/64-bit lanes: boundary alphabet, not all values"]
    return "exploration", cov, assumptions, res.viol


def replay(rep):
    """Re-run the whole operand table of the recorded opcode on the recorded path."""
    r = rep["replay"]
    if "|program|" in rep.get("key", ""):
        print("program-level finding; the whole family is re-run by bin/check C02 (engine xrefprog):", r.get("program", "")[:300])
        exe = vlib.build_engine("xrefprog", "plain")
        scratch = vlib.scratch_dir("C02r")
        p = subprocess.run([exe, "--levels", "LS,L2,L3,L1,L5,L6"], stdout=subprocess.PIPE, env=vlib.scrub_env(scratch=scratch), timeout=1200)
        shutil.rmtree(scratch, ignore_errors=True)
        bad = [l for l in p.stdout.decode().splitlines() if '"t":"viol"' in l and rep["key"] in l]
        print("\n".join(b[:500] for b in bad[:3]) if bad else "replayed without violation")
        return 1 if bad else 0
    if "form" not in r:
        print("documentation-level finding; re-run bin/check C02:", r)
        return 0
    exe = vlib.build_engine("xemu", "plain")
    scratch = vlib.scratch_dir("C02r")
    cls = "float" if "|float|" in rep.get("key", "") else "int"
    p = subprocess.run([exe, "--tier", "quick", "--classes", cls, "--path", r.get("path", "emulate"), "--only", r["opcode"]],
                       stdout=subprocess.PIPE, env=vlib.scrub_env(scratch=scratch), timeout=1200)
    shutil.rmtree(scratch, ignore_errors=True)
    bad = [l for l in p.stdout.decode().splitlines() if '"t":"viol"' in l]
    print("\n".join(b[:500] for b in bad[:5]) if bad else "replayed without violation")
    return 1 if bad else 0
