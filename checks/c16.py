"""C16 - object lifecycle.  Exhaustive enumeration of legal lifecycle sequences
(reference state machine for legality) executed on the real library under
AddressSanitizer, each 4 times in one process with resource accounting."""
import shutil
import subprocess
import vlib


def run(ctx):
    tier = ctx["tier"]
    exe = vlib.build_engine("xlife", "asan")
    scratch = vlib.scratch_dir("C16")
    env = vlib.scrub_env(scratch=scratch)
    depth = 6 if tier == "quick" else 8
    deadline = ctx["deadline"] or (300 if tier == "quick" else 3600)
    nsh = vlib.NCPU * 2
    args = [["--depth", depth, "--shard", i, "--nshards", nsh, "--deadline", int(deadline)] for i in range(nsh)]
    res = vlib.run_shards(exe, args, env, timeout=deadline * 1.3 + 120, label="xlife")
    # the same exploration, one level shallower, in a process configuration whose override names a back end that cannot
    # run here (ignored by the library: the detected default is kept), so that the override path is part of every compile
    env2 = dict(env)
    env2["ORC_TARGET"] = "neon"
    args2 = [["--depth", depth - 1, "--shard", i, "--nshards", nsh, "--deadline", int(deadline)] for i in range(nsh)]
    res2 = vlib.run_shards(exe, args2, env2, timeout=deadline * 1.3 + 120, label="xlife/ORC_TARGET=neon")
    for v in res2.viol:
        v["key"] = v["key"].replace("C16|", "C16|ORC_TARGET=neon|", 1)
        v["what"] = "with ORC_TARGET=neon in the environment: " + v.get("what", "")
        v.setdefault("replay", {})["env"] = {"ORC_TARGET": "neon"}
    shutil.rmtree(scratch, ignore_errors=True)
    st = res.stats
    cov = {
        "states": int(st.get("model_states", 0)),
        "transitions": int(st.get("operations", 0)),
        "traces_validated_against_impl": int(st.get("sequences", 0)),
        "samples": res.samples or [{"note": "none"}],
        "depth": depth,
        "alphabet": "new, add_ok, add_mismatch (fatal at compile), add_float (no rule on mmx), add_unknown (program error), compile for "
                    "{default, sse, mmx, c}, take_code, reset, run/emulate with a fresh executor, executor new/run/emulate/free (kept "
                    "across recompiles), run/emulate/free of the detached code object, free program",
        "explanation": "states = abstract lifecycle states of the reference state machine reached; transitions = operations executed on the "
                       "implementation (every legal sequence up to the depth, 4 repetitions each); traces = sequences, each in a fresh "
                       "forked process of an initialised zygote",
        "oracles": ["no AddressSanitizer report, abort or signal", "every run/emulate result equals the expected vector", "invalid programs "
                    "compile to a fatal result, non-fatal results leave a code object", "live heap bytes, used code chunks, regions and "
                    "open descriptors after 4 repetitions equal those after 2"],
        "second_configuration": {"environment": "ORC_TARGET=neon (override naming a back end that is not executable here)", "depth": depth - 1,
                                 "sequences": int(res2.stats.get("sequences", 0)), "operations": int(res2.stats.get("operations", 0))},
        "exhaustive": not res.incomplete and not res2.incomplete,
        "notes": (res.notes + res2.notes)[:6],
    }
    assumptions = ["legality as documented: no run after a fatal compile, after reset or after the code was taken; no use after free; an "
                   "executor may be kept across recompiles", "one program, one executor and one detached code object at a time",
                   "AddressSanitizer allocator statistics measure live heap bytes"]
    return "model_checking", cov, assumptions, res.viol + res2.viol


def replay(rep):
    exe = vlib.build_engine("xlife", "asan")
    scratch = vlib.scratch_dir("C16r")
    env = vlib.scrub_env(scratch=scratch)
    env.update(rep["replay"].get("env", {}))
    p = subprocess.run([exe, "--replay", rep["replay"]["sequence"]], stdout=subprocess.PIPE, env=env, timeout=120)
    shutil.rmtree(scratch, ignore_errors=True)
    print(p.stdout.decode()[-1500:])
    return p.returncode
