"""C16 - object lifecycle.  Exhaustive enumeration of legal lifecycle sequences
(reference state machine for legality) executed on the real library under
AddressSanitizer, each 4 times in one process with resource accounting."""
import shutil
import subprocess
import vlib


def run(ctx):
    tier = ctx["tier"]
    exe = vlib.build_engine("xlife", "asan")
    scratch = vlib.scratch_dir("C16")
    env = vlib.scrub_env(scratch=scratch)
    depth = 6 if tier == "quick" else 8
    deadline = ctx["deadline"] or (300 if tier == "quick" else 1800)
    nsh = vlib.NCPU * 2
    args = [["--depth", depth, "--shard", i, "--nshards", nsh, "--deadline", int(deadline)] for i in range(nsh)]
    res = vlib.run_shards(exe, args, env, timeout=deadline * 1.3 + 120, label="xlife")
    shutil.rmtree(scratch, ignore_errors=True)
    st = res.stats
    cov = {
        "states": int(st.get("model_states", 0)),
        "transitions": int(st.get("operations", 0)),
        "traces_validated_against_impl": int(st.get("sequences", 0)),
        "samples": res.samples or [{"note": "none"}],
        "depth": depth,
        "alphabet": "new, add_ok, add_mismatch (fatal at compile), add_float (no rule on mmx), add_unknown (program error), compile for "
                    "{default, sse, mmx, c}, take_code, reset, run/emulate with a fresh executor, executor new/run/emulate/free (kept "
                    "across recompiles), run/emulate/free of the detached code object, free program",
        "explanation": "states = abstract lifecycle states of the reference state machine reached; transitions = operations executed on the "
                       "implementation (every legal sequence up to the depth, 4 repetitions each); traces = sequences, each in a fresh "
                       "forked process of an initialised zygote",
        "oracles": ["no AddressSanitizer report, abort or signal", "every run/emulate result equals the expected vector", "invalid programs "
                    "compile to a fatal result, non-fatal results leave a code object", "live heap bytes, used code chunks, regions and "
                    "open descriptors after 4 repetitions equal those after 2"],
        "exhaustive": not res.incomplete,
        "notes": res.notes[:6],
    }
    assumptions = ["legality as documented: no run after a fatal compile, after reset or after the code was taken; no use after free; an "
                   "executor may be kept across recompiles", "one program, one executor and one detached code object at a time",
                   "AddressSanitizer allocator statistics measure live heap bytes"]
    return "model_checking", cov, assumptions, res.viol


def replay(rep):
    exe = vlib.build_engine("xlife", "asan")
    scratch = vlib.scratch_dir("C16r")
    p = subprocess.run([exe, "--replay", rep["replay"]["sequence"]], stdout=subprocess.PIPE, env=vlib.scrub_env(scratch=scratch), timeout=120)
    shutil.rmtree(scratch, ignore_errors=True)
    print(p.stdout.decode()[-1500:])
    return p.returncode
