"""C08 - thread safety.  Stateless model checking of the real library under a
cooperative scheduler that owns every hooked synchronisation point (engine
xsched): all interleavings of 2-3 threads up to a preemption bound for five
scenarios, every schedule a fresh process; end state must equal the sequential
run (as-if-serialised).  A free-running ThreadSanitizer pass over the same
scenario bodies complements it for unsynchronised accesses."""
import os
import re
import shutil
import subprocess
import time

import vlib

SCEN = ["init", "once", "codemem", "run", "emulate", "generated"]


def gen_flags():
    """orcc output for the 'generated' scenario; returns the extra compiler flags for the xsched build"""
    import hashlib
    orcc = vlib.build_tool("orcc")
    d = os.path.join(vlib.BUILD, "c08gen")
    os.makedirs(d, exist_ok=True)
    h = hashlib.sha256()
    for name, opts, fn in (("gen_c_addw", ["--compat", "0.4.10", "--no-backup"], "xsched_gen_c.c"), ("gen_d_addw", [], "xsched_gen_d.c")):
        src = os.path.join(d, name + ".orc")
        open(src, "w").write(".function %s\n.dest 2 d1\n.source 2 s1\n.source 2 s2\naddw d1, s1, s2\n" % name)
        out = os.path.join(d, fn + ".tmp%d" % os.getpid())
        r = subprocess.run([orcc] + opts + ["--implementation", "-o", out, src], stdout=subprocess.PIPE, stderr=subprocess.STDOUT)
        if r.returncode:
            raise vlib.BuildError("orcc failed for the generated scenario: " + r.stdout.decode()[-500:])
        h.update(open(out, "rb").read())
        os.rename(out, os.path.join(d, fn))
    return ["-I" + d, "-DXS_GEN", "-DXS_GEN_HASH=0x" + h.hexdigest()[:8]]


def run(ctx):
    tier = ctx["tier"]
    t0 = time.time()
    exe = vlib.build_engine("xsched", "plain", extra_flags=gen_flags())
    scratch = vlib.scratch_dir("C08")
    env = vlib.scrub_env({"MALLOC_ARENA_MAX": "1"}, scratch=scratch)
    deadline = ctx["deadline"] or (600 if tier == "quick" else 2400)
    if tier == "quick":
        cfgs = [(s, 2, 3) for s in SCEN] + [(s, 3, 2) for s in SCEN]
    else:
        # measured (one process): codemem/2 threads bound 4 = 98 k schedules, emulate/2 bound 4 = 33 k, once/2 bound 4 = 12 k;
        # 3 threads at bound 3 exceed 10^5 schedules for once/codemem/emulate and are left to bound 2
        deep = {"init": (8, 5), "run": (8, 5), "once": (6, 3), "codemem": (5, 2), "emulate": (5, 2), "generated": (5, 2)}
        cfgs = [(s, 2, deep[s][0]) for s in SCEN] + [(s, 3, deep[s][1]) for s in SCEN]
    res = vlib.Results()
    # lower bounds first (each engine run iterates 0..bound when unpartitioned); the top bound is split into parts
    args = []
    for s, t, b in cfgs:
        args.append(["--scenario", s, "--threads", t, "--bound", b - 1, "--deadline", int(deadline)])
        k = 12 if (s in ("codemem", "once", "generated")) else 4
        for i in range(k):
            args.append(["--scenario", s, "--threads", t, "--bound", b, "--part", "%d/%d" % (i, k), "--deadline", int(deadline)])
    vlib.run_shards(exe, args, env, timeout=deadline * 1.5 + 60, res=res, label="xsched")
    st = res.stats
    # ---- ThreadSanitizer monitor pass (free-running, separate build) ----
    tsan_reports = 0
    tsan_runs = 0
    tsan_note = ""
    try:
        texe = vlib.build_engine("xsched", "tsan", extra_flags=gen_flags())
        tenv = dict(env)
        tenv["TSAN_OPTIONS"] = "exitcode=97 halt_on_error=0 report_signal_unsafe=0"
        reps = 10 if tier == "quick" else 40
        for s in SCEN:
            for r in range(reps):
                try:
                    p = subprocess.run([texe, "--scenario", s, "--threads", "8", "--free-run", "6"], stdout=subprocess.PIPE,
                                       stderr=subprocess.PIPE, env=tenv, timeout=120)
                except subprocess.TimeoutExpired:
                    # 8 free-running threads doing a few dozen library calls each finish in well under a second: not having
                    # finished after 120 s of wall clock is a hang (a lock that is never given back), re-run once to be sure
                    try:
                        p = subprocess.run([texe, "--scenario", s, "--threads", "8", "--free-run", "6"], stdout=subprocess.PIPE,
                                           stderr=subprocess.PIPE, env=tenv, timeout=300)
                    except subprocess.TimeoutExpired:
                        tsan_reports += 1
                        res.viol.append({"t": "viol", "key": "C08|hang|%s" % s,
                                         "what": "free-running scenario %s (8 threads) did not finish within 120 s and again within 300 s: threads "
                                                 "block forever (a mutex that is not released on some path)" % s,
                                         "replay": {"scenario": s, "tsan": True}})
                        break
                tsan_runs += 1
                err = p.stderr.decode("utf-8", "replace")
                if p.returncode != 0 or "WARNING: ThreadSanitizer" in err:
                    tsan_reports += 1
                    m = re.search(r"WARNING: ThreadSanitizer: ([^\n]*)\n(?:.*\n){0,40}?\s+#0 (\S+) (\S+)", err)
                    locs = sorted(set(re.findall(r"#\d+ (orc_\w+|_orc_\w+) /repo/(orc/\w+\.[ch]):\d+", err)))[:4]
                    sig = "+".join("%s@%s" % (f, os.path.basename(fl)) for f, fl in locs) or "unknown"
                    res.viol.append({"t": "viol", "key": "C08|tsan|%s|%s" % (s, sig),
                                     "what": "ThreadSanitizer report in free-running scenario %s (8 threads): %s" % (s, err[:1500]),
                                     "replay": {"scenario": s, "tsan": True}})
                    break
    except vlib.BuildError as e:
        tsan_note = "tsan build failed: %s" % str(e)[-300:]
        res.notes.append(tsan_note)
    shutil.rmtree(scratch, ignore_errors=True)
    bounds = {k: v for k, v in st.items() if k.startswith("bound_completed") or k.startswith("distinct_outcomes")}
    cov = {
        "states": int(st.get("choice_points", 0)),
        "transitions": int(st.get("choice_points", 0)),
        "traces_validated_against_impl": int(st.get("schedules", 0)),
        "samples": res.samples or [{"note": "none"}],
        "schedules_executed": int(st.get("schedules", 0)),
        "schedules_with_mutex_contention": int(st.get("schedules_with_mutex_contention", 0)),
        "deadlocks": int(st.get("deadlocks", 0)),
        "configurations": ["%s: %d threads, preemption bound %d" % c for c in cfgs],
        "completed": bounds,
        "explanation": "states = choice points visited (scheduler decisions at hooked synchronisation points), one execution of the real "
                       "library per schedule in a fresh process; no state hashing is used, so states == transitions",
        "tsan_monitor": {"runs": tsan_runs, "reports": tsan_reports, "note": tsan_note or "free-running 8 threads x repetitions per scenario; a monitor, not the deciding step"},
        "exhaustive": not res.incomplete,
        "notes": res.notes[:12],
    }
    assumptions = ["interleavings are sequentially consistent; weak-memory reorderings are visible only to the ThreadSanitizer pass",
                   "scheduling points are the hooked ones (mutex lock/unlock, once flag loads/stores, init flag, inside code-memory critical "
                   "sections); code between two points runs atomically", "at most 3 threads and the stated preemption bound"]
    return "model_checking", cov, assumptions, res.viol


def replay(rep):
    r = rep["replay"]
    if r.get("tsan"):
        print("re-run: bin/check C08 (ThreadSanitizer pass is free-running)")
        return 0
    exe = vlib.build_engine("xsched", "plain", extra_flags=gen_flags())
    scratch = vlib.scratch_dir("C08r")
    p = subprocess.run([exe, "--scenario", r["scenario"], "--threads", str(r["threads"]), "--replay", r["schedule"]],
                       stdout=subprocess.PIPE, env=vlib.scrub_env(scratch=scratch), timeout=120)
    shutil.rmtree(scratch, ignore_errors=True)
    print(p.stdout.decode())
    return p.returncode
