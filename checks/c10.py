"""C10 - generated functions honour the C calling convention (engine xabi):
every compiled program of the enumerated space x {avx,sse,mmx} x n x MXCSR
seeds is called through an assembly trampoline that seeds and checks machine
state."""
import shutil
import vlib
import c01


def run(ctx):
    tier = ctx["tier"]
    exe = vlib.build_engine("xabi", "plain")
    scratch = vlib.scratch_dir("C10")
    env = vlib.scrub_env(scratch=scratch)
    nsh = vlib.NCPU * 2
    levels = "L1,L4,L5,L6" if tier == "quick" else "L1,L3,L4,L5,L6"
    deadline = ctx["deadline"] or (300 if tier == "quick" else 1800)
    args = [["--tier", tier, "--levels", levels, "--corpus", c01.corpus_arg(), "--shard", i, "--nshards", nsh] for i in range(nsh)]
    res = vlib.run_shards(exe, args, env, timeout=deadline, label="xabi")
    shutil.rmtree(scratch, ignore_errors=True)
    st = res.stats
    cov = {
        "evaluations": int(st.get("calls", 0)),
        "distinct_nontrivial": int(st.get("compiled", 0)),
        "rule": "programs of levels %s (integer and float single-opcode forms, corpus, register-pressure / 12-array programs that use "
                "callee-saved registers, 2-D) compiled for avx, sse and mmx; each natively compiled (program,target) pair is called directly "
                "through the trampoline for n in {0,1,V-1,V,2V+1(,4V+3)} x MXCSR seeds (4 rounding modes x FTZ x DAZ; all 16 at n=2V+1, two "
                "elsewhere in the quick tier) x executor placement (flush against a leading / trailing PROT_NONE page). Non-trivial and "
                "distinct = (program,target) pairs that produced native code." % levels,
        "samples": res.samples or [{"note": "none"}],
        "programs": int(st.get("programs", 0)),
        "memory_checks": int(st.get("memory_checks", 0)),
        "checked": ["rbx rbp r12-r15 preserved", "rsp restored", "8 canary words above the return address intact", "MXCSR control bits "
                    "(rounding, FTZ, DAZ, masks) equal to the seed", "DF clear", "x87/MMX tag word empty", "no fault outside executor/arrays", "every byte of the array mappings outside elements 0..n-1 of the destination rows as filled (sources, leading/trailing bytes, row gaps), with the executor's scratch counters holding stale values on entry"],
        "exhaustive": not res.incomplete,
        "notes": res.notes[:5],
    }
    assumptions = ["MXCSR status (sticky exception) bits are not callee-preserved and are ignored", "exception masks stay set (unmasked "
                   "exceptions would trap in ordinary float code)", "memory other than the array mappings, the executor and the stack is observed only through faults (guard pages) and the caller-frame canary"]
    return "exploration", cov, assumptions, res.viol


def replay(rep):
    print("re-run bin/check C10; failing program:", rep["replay"])
    return 0
