"""C09 - code memory consistency over histories.  Explicit-state BFS over
alloc/compile/free histories on the real allocator (engine xhist), canonical
state = per-region chunk lists + live objects; invariants in every state."""
import json
import shutil
import time

import vlib

SIZES_QUICK = "16,17,30000,32752,65520,65536"
SIZES_THOROUGH = "1,16,17,4000,30000,32752,65520,65521,65536"


def explore(exe, env, sizes, depth, deadline, t0, closure=True):
    seen = {}
    frontier = [""]
    states = 0
    transitions = 0
    viols = []
    samples = []
    completed = 0
    res = vlib.Results()
    root_seen = False
    for d in range(depth + 1):
        if not frontier:
            break
        if time.time() - t0 > deadline:
            res.incomplete = True
            res.notes.append("deadline before depth %d" % d)
            break
        nsh = min(vlib.NCPU * 2, max(1, len(frontier)))
        inputs = ["\n".join(frontier[i::nsh]) + "\n" for i in range(nsh)]
        new = []
        trs = []

        def on_line(line):
            if line.startswith('{"t":"tr"'):
                trs.append(json.loads(line))
                return True
            if line.startswith('{"t":"node"'):
                r = json.loads(line)
                if r["h"] == "" and "" not in seen:
                    seen[r["canon"]] = ""
                return True
            return False

        args = [["--sizes", sizes] + (["--closure"] if closure else []) + (["--leaf"] if d == depth else []) for _ in range(nsh)]
        vlib.run_shards(exe, args, env, timeout=max(60, deadline - (time.time() - t0) + 120), res=res, label="xhist", inputs=inputs,
                        on_line=on_line)
        transitions += len(trs)
        for r in sorted(trs, key=lambda r: (len(r["h"]), r["h"], r["op"])):
            c = r["canon"]
            if c not in seen:
                h = (r["h"] + " " + str(r["op"])).strip()
                seen[c] = h
                new.append(h)
                if len(samples) < 6 and len(h.split()) >= 3 and len(seen) % 97 == 0:
                    samples.append({"history": h, "state": c})
        completed = d
        if d == depth:
            break
        frontier = new
    return seen, transitions, completed, res, samples


def run(ctx):
    tier = ctx["tier"]
    t0 = time.time()
    exe = vlib.build_engine("xhist", "plain")
    scratch = vlib.scratch_dir("C09")
    env = vlib.scrub_env(scratch=scratch)
    if tier == "quick":
        sizes, depth, deadline = SIZES_QUICK, 5, ctx["deadline"] or 300
        sizes2, depth2 = "0,32752,65520", 7
    else:
        sizes, depth, deadline = SIZES_THOROUGH, 6, ctx["deadline"] or 1800
        sizes2, depth2 = "0,16,32752,65520", 8
    seen, transitions, completed, res, samples = explore(exe, env, sizes, depth, deadline * 0.5, t0)
    # second exploration: narrow alphabet, deeper
    seen2, transitions2, completed2, res2, samples2 = explore(exe, env, sizes2, depth2, deadline, t0)
    shutil.rmtree(scratch, ignore_errors=True)
    if not samples and seen:
        k = sorted(seen, key=lambda c: -len(seen[c]))[0]
        samples = [{"history": seen[k], "state": k}]
    nsz = len(sizes.split(","))
    cov = {
        "states": len(seen),
        "transitions": transitions,
        "traces_validated_against_impl": transitions,
        "samples": samples,
        "depth_completed": completed,
        "closure_checks": int(res.stats.get("closures", 0)),
        "alphabet": "alloc(s) for s in {%s} through orc_code_new+orc_code_allocate_codemem (ops 0..%d), compile+take_code of 2 real programs "
                    "(ops %d..%d), free(k) of the k-th live object in address order (ops 100+k)" % (sizes, nsz - 1, nsz, nsz + 1),
        "canonical_state": "per region the ordered chunk list (offset,size,used) and the requested size of the object in each used chunk",
        "invariants": ["chunks tile each region", "no adjacent free chunks", "every live object alone in a used chunk inside a region, exec/write "
                       "pointers consistent", "object bytes intact through both mappings; compiled functions re-run and equal emulation",
                       "an allocation that fits a free chunk opens no region", "after freeing everything each region is one free chunk",
                       "repeating the history afterwards opens no further region"],
        "second_exploration": {"sizes": sizes2, "depth_completed": completed2, "states": len(seen2), "transitions": transitions2,
                               "closure_checks": int(res2.stats.get("closures", 0)), "samples": samples2[:2]},
        "exhaustive": not (res.incomplete or res2.incomplete),
        "notes": (res.notes + res2.notes)[:10],
    }
    cov["states"] += len(seen2)
    cov["transitions"] += transitions2
    cov["traces_validated_against_impl"] += transitions2
    assumptions = ["single-threaded histories (interleavings are C08)", "sizes above the 64 KiB region size are outside the alphabet",
                   "state merging is sound because the allocator's future depends only on the chunk lists"]
    return "model_checking", cov, assumptions, res.viol + res2.viol


def replay(rep):
    """Re-run one recorded history (no exploration) and report."""
    exe = vlib.build_engine("xhist", "plain")
    scratch = vlib.scratch_dir("C09r")
    env = vlib.scrub_env(scratch=scratch)
    h = rep["replay"]["history"].replace(" -1", "").replace(" -2", "").strip()
    import subprocess
    out = ""
    for sizes in (SIZES_QUICK, "16,32752,65520", SIZES_THOROUGH, "16,17,32752,65520"):
        p = subprocess.run([exe, "--sizes", sizes, "--closure", "--leaf"], input=(h + "\n").encode(), stdout=subprocess.PIPE, env=env, timeout=120)
        out += p.stdout.decode()
    shutil.rmtree(scratch, ignore_errors=True)
    bad = [l for l in out.splitlines() if '"t":"viol"' in l]
    print("\n".join(bad[:5]) if bad else "history replayed without violation (note: op codes depend on the size alphabet)")
    return 1 if bad else 0
