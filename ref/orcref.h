/* Independent opcode reference (DESIGN.md 3.5).  Written from the opcode
 * reference (doc/opcodes.xml prose + the description column of
 * doc/opcode_table.xml), not from orc/opcodes.h: opcode names are decomposed
 * into family / width / signedness and evaluated with explicit widening
 * arithmetic (__int128), explicit saturation bounds and explicit byte order.
 *
 * ref_eval() evaluates one element of a non-load, non-accumulator opcode.
 * Returns 1 if the opcode is known to the reference, 0 otherwise (a new
 * opcode is then a visible gap).  Float opcodes: IEEE single/double with
 * denormal inputs and results flushed to (signed) zero. */
#ifndef ORCREF_H
#define ORCREF_H
#include <stdint.h>
#include <string.h>
#include <math.h>

typedef __int128 ref_i128;

static uint64_t ref_mask (int bytes) { return bytes >= 8 ? ~(uint64_t) 0 : (((uint64_t) 1 << (bytes * 8)) - 1); }
static int64_t ref_sx (uint64_t v, int bytes)
{
  int sh = 64 - bytes * 8;
  return sh <= 0 ? (int64_t) v : ((int64_t) (v << sh)) >> sh;
}
static uint64_t ref_zx (uint64_t v, int bytes) { return v & ref_mask (bytes); }
static ref_i128 ref_clamp (ref_i128 v, ref_i128 lo, ref_i128 hi) { return v < lo ? lo : v > hi ? hi : v; }
static ref_i128 ref_smin (int bytes) { return -((ref_i128) 1 << (bytes * 8 - 1)); }
static ref_i128 ref_smax (int bytes) { return ((ref_i128) 1 << (bytes * 8 - 1)) - 1; }
static ref_i128 ref_umax (int bytes) { return ((ref_i128) 1 << (bytes * 8)) - 1; }

static uint64_t ref_bswap (uint64_t v, int bytes)
{
  uint64_t r = 0;
  int i;
  for (i = 0; i < bytes; i++) r |= ((v >> (8 * i)) & 0xff) << (8 * (bytes - 1 - i));
  return r;
}

/* ---- float helpers ---- */
static uint32_t ref_ftz32 (uint32_t x) { return (x & 0x7f800000u) == 0 ? (x & 0x80000000u) : x; }
static uint64_t ref_ftz64 (uint64_t x) { return (x & 0x7ff0000000000000ULL) == 0 ? (x & 0x8000000000000000ULL) : x; }
static float ref_f32 (uint32_t x) { float f; memcpy (&f, &x, 4); return f; }
static uint32_t ref_u32 (float f) { uint32_t x; memcpy (&x, &f, 4); return x; }
static double ref_f64 (uint64_t x) { double f; memcpy (&f, &x, 8); return f; }
static uint64_t ref_u64 (double f) { uint64_t x; memcpy (&x, &f, 8); return x; }
static int ref_isnan32 (uint32_t x) { return (x & 0x7f800000u) == 0x7f800000u && (x & 0x007fffffu); }
static int ref_isnan64 (uint64_t x) { return (x & 0x7ff0000000000000ULL) == 0x7ff0000000000000ULL && (x & 0x000fffffffffffffULL); }
static int ref_isfinite32 (uint32_t x) { return (x & 0x7f800000u) != 0x7f800000u; }
static int ref_isfinite64 (uint64_t x) { return (x & 0x7ff0000000000000ULL) != 0x7ff0000000000000ULL; }

/* result classification for float opcodes */
enum { REF_EXACT = 0, REF_EITHER_OPERAND = 1, REF_ANY_NAN = 2, REF_UNSPECIFIED = 3 };

static int ref_has_prefix (const char *s, const char *p) { return strncmp (s, p, strlen (p)) == 0; }
static int ref_is (const char *s, const char *a) { return strcmp (s, a) == 0; }

/* sizes: ds = dest size, ss0/ss1 = source sizes (bytes).  a, b: source bit patterns.
 * *d, *d2: results.  *cls: how the result is to be compared (floats). */
static int ref_eval (const char *op, int ds, int ds2, int ss0, int ss1, uint64_t a, uint64_t b, uint64_t *d, uint64_t *d2, int *cls)
{
  ref_i128 A = ref_sx (a, ss0), B = ref_sx (b, ss1 ? ss1 : ss0), UA = ref_zx (a, ss0), UB = ref_zx (b, ss1 ? ss1 : ss0), r = 0;
  int w = ds;
  *cls = REF_EXACT;
  *d2 = 0;
  (void) ds2;
  /* ---------------- float opcodes ---------------- */
  {
    size_t L = strlen (op);
    int isf = 0, isd = 0;
    static const char *fops[] = { "addf", "subf", "mulf", "divf", "sqrtf", "maxf", "minf", "cmpeqf", "cmpltf", "cmplef", "convfl", "convlf", "convwf",
      "addd", "subd", "muld", "divd", "sqrtd", "maxd", "mind", "cmpeqd", "cmpltd", "cmpled", "convdl", "convld", "convfd", "convdf", "orf", "andf", NULL };
    int k;
    for (k = 0; fops[k]; k++) if (ref_is (op, fops[k])) { isf = 1; isd = op[L - 1] == 'd' && !ref_is (op, "convfd") ? 1 : 0; }
    if (isf) {
      if (ref_is (op, "orf")) { *d = (a | b) & 0xffffffffu; return 1; }
      if (ref_is (op, "andf")) { *d = (a & b) & 0xffffffffu; return 1; }
      if (ref_is (op, "convlf")) { *d = ref_u32 ((float) (int32_t) a); return 1; }
      if (ref_is (op, "convwf")) { *d = ref_u32 ((float) (int16_t) a); return 1; }
      if (ref_is (op, "convld")) { *d = ref_u64 ((double) (int32_t) a); return 1; }
      if (ref_is (op, "convfd")) {
        uint32_t x = ref_ftz32 ((uint32_t) a);
        if (ref_isnan32 (x)) { *cls = REF_ANY_NAN; *d = 0x7ff8000000000000ULL; return 1; }
        *d = ref_u64 ((double) ref_f32 (x));
        return 1;
      }
      if (ref_is (op, "convdf")) {
        uint64_t x = ref_ftz64 (a);
        if (ref_isnan64 (x)) { *cls = REF_ANY_NAN; *d = 0x7fc00000u; return 1; }
        *d = ref_ftz32 (ref_u32 ((float) ref_f64 (x)));
        return 1;
      }
      if (ref_is (op, "convfl")) {
        uint32_t x = ref_ftz32 ((uint32_t) a);
        float f = ref_f32 (x);
        if (ref_isnan32 (x)) { *cls = REF_UNSPECIFIED; *d = 0; return 1; }
        if (f >= 2147483648.0f) *d = 0x7fffffffu;
        else if (f < -2147483648.0f) *d = 0x80000000u;
        else *d = (uint32_t) (int32_t) f;	/* truncation towards zero */
        return 1;
      }
      if (ref_is (op, "convdl")) {
        uint64_t x = ref_ftz64 (a);
        double f = ref_f64 (x);
        if (ref_isnan64 (x)) { *cls = REF_UNSPECIFIED; *d = 0; return 1; }
        if (f >= 2147483648.0) *d = 0x7fffffffu;
        else if (f < -2147483648.0) *d = 0x80000000u;
        else *d = (uint32_t) (int32_t) f;
        return 1;
      }
      if (!isd) {
        uint32_t x = ref_ftz32 ((uint32_t) a), y = ref_ftz32 ((uint32_t) b);
        float fx = ref_f32 (x), fy = ref_f32 (y), fr = 0;
        int nan = ref_isnan32 (x) || (ss1 && ref_isnan32 (y));
        if (ref_has_prefix (op, "cmp")) {
          int t = ref_is (op, "cmpeqf") ? fx == fy : ref_is (op, "cmpltf") ? fx < fy : fx <= fy;
          *d = t ? 0xffffffffu : 0;
          return 1;
        }
        if (ref_is (op, "maxf") || ref_is (op, "minf")) {
          if (nan) { *cls = REF_UNSPECIFIED; *d = 0; return 1; }
          if (fx == fy) { *cls = REF_EITHER_OPERAND; *d = x; *d2 = y; return 1; }
          *d = ref_is (op, "maxf") ? (fx > fy ? x : y) : (fx < fy ? x : y);
          return 1;
        }
        if (nan) { *cls = REF_ANY_NAN; *d = 0x7fc00000u; return 1; }
        if (ref_is (op, "addf")) fr = fx + fy;
        else if (ref_is (op, "subf")) fr = fx - fy;
        else if (ref_is (op, "mulf")) fr = fx * fy;
        else if (ref_is (op, "divf")) fr = fx / fy;
        else if (ref_is (op, "sqrtf")) fr = sqrtf (fx);
        else return 0;
        *d = ref_ftz32 (ref_u32 (fr));
        if (ref_isnan32 ((uint32_t) *d)) *cls = REF_ANY_NAN;
        return 1;
      } else {
        uint64_t x = ref_ftz64 (a), y = ref_ftz64 (b);
        double fx = ref_f64 (x), fy = ref_f64 (y), fr = 0;
        int nan = ref_isnan64 (x) || (ss1 && ref_isnan64 (y));
        if (ref_has_prefix (op, "cmp")) {
          int t = ref_is (op, "cmpeqd") ? fx == fy : ref_is (op, "cmpltd") ? fx < fy : fx <= fy;
          *d = t ? ~(uint64_t) 0 : 0;
          return 1;
        }
        if (ref_is (op, "maxd") || ref_is (op, "mind")) {
          if (nan) { *cls = REF_UNSPECIFIED; *d = 0; return 1; }
          if (fx == fy) { *cls = REF_EITHER_OPERAND; *d = x; *d2 = y; return 1; }
          *d = ref_is (op, "maxd") ? (fx > fy ? x : y) : (fx < fy ? x : y);
          return 1;
        }
        if (nan) { *cls = REF_ANY_NAN; *d = 0x7ff8000000000000ULL; return 1; }
        if (ref_is (op, "addd")) fr = fx + fy;
        else if (ref_is (op, "subd")) fr = fx - fy;
        else if (ref_is (op, "muld")) fr = fx * fy;
        else if (ref_is (op, "divd")) fr = fx / fy;
        else if (ref_is (op, "sqrtd")) fr = sqrt (fx);
        else return 0;
        *d = ref_ftz64 (ref_u64 (fr));
        if (ref_isnan64 (*d)) *cls = REF_ANY_NAN;
        return 1;
      }
    }
  }
  /* ---------------- integer opcodes ---------------- */
  if (ref_has_prefix (op, "abs")) r = A < 0 ? -A : A;
  else if (ref_has_prefix (op, "addss")) r = ref_clamp (A + B, ref_smin (w), ref_smax (w));
  else if (ref_has_prefix (op, "addus")) r = ref_clamp (UA + UB, 0, ref_umax (w));
  else if (ref_has_prefix (op, "add")) r = A + B;
  else if (ref_has_prefix (op, "subss")) r = ref_clamp (A - B, ref_smin (w), ref_smax (w));
  else if (ref_has_prefix (op, "subus")) r = ref_clamp (UA - UB, 0, ref_umax (w));
  else if (ref_has_prefix (op, "sub")) r = A - B;
  else if (ref_has_prefix (op, "andn")) r = (~UA) & UB;	/* "AND NOT" in the x86 sense: the first operand is complemented */
  else if (ref_has_prefix (op, "and")) r = UA & UB;
  else if (ref_has_prefix (op, "or")) r = UA | UB;
  else if (ref_has_prefix (op, "xor")) r = UA ^ UB;
  else if (ref_has_prefix (op, "avgs")) r = (A + B + 1) >> 1;
  else if (ref_has_prefix (op, "avgu")) r = (UA + UB + 1) >> 1;
  else if (ref_has_prefix (op, "cmpeq")) r = UA == UB ? -1 : 0;
  else if (ref_has_prefix (op, "cmpgts")) r = A > B ? -1 : 0;
  else if (ref_has_prefix (op, "copy")) r = UA;
  else if (ref_has_prefix (op, "maxs")) r = A > B ? A : B;
  else if (ref_has_prefix (op, "maxu")) r = UA > UB ? UA : UB;
  else if (ref_has_prefix (op, "mins")) r = A < B ? A : B;
  else if (ref_has_prefix (op, "minu")) r = UA < UB ? UA : UB;
  else if (ref_has_prefix (op, "mull")) r = A * B;
  else if (ref_has_prefix (op, "mulhs")) r = (A * B) >> (8 * ss0);
  else if (ref_has_prefix (op, "mulhu")) r = (UA * UB) >> (8 * ss0);
  else if (ref_has_prefix (op, "muls")) r = A * B;	/* widening: mulsbw mulswl mulslq */
  else if (ref_has_prefix (op, "mulu")) r = UA * UB;
  else if (ref_has_prefix (op, "shl")) r = UA << (int) (b & 63);
  else if (ref_has_prefix (op, "shrs")) r = A >> (int) (b & 63);
  else if (ref_has_prefix (op, "shru")) r = UA >> (int) (b & 63);
  else if (ref_has_prefix (op, "sign")) r = A > 0 ? 1 : A < 0 ? -1 : 0;
  else if (ref_is (op, "div255w")) r = UA / 255;
  else if (ref_is (op, "divluw")) { ref_i128 dv = UB & 0xff; r = dv == 0 ? 255 : ref_clamp (UA / dv, 0, 255); }
  else if (ref_has_prefix (op, "convsss")) r = ref_clamp (A, ref_smin (w), ref_smax (w));
  else if (ref_has_prefix (op, "convsus")) r = ref_clamp (A, 0, ref_umax (w));
  else if (ref_has_prefix (op, "convuss")) r = ref_clamp (UA, 0, ref_smax (w));
  else if (ref_has_prefix (op, "convuus")) r = ref_clamp (UA, 0, ref_umax (w));
  else if (ref_has_prefix (op, "convh")) r = UA >> (8 * w);	/* convhwb, convhlw: the high half */
  else if (ref_is (op, "convsbw") || ref_is (op, "convswl") || ref_is (op, "convslq")) r = A;
  else if (ref_is (op, "convubw") || ref_is (op, "convuwl") || ref_is (op, "convulq")) r = UA;
  else if (ref_is (op, "convwb") || ref_is (op, "convlw") || ref_is (op, "convql")) r = UA;	/* truncation */
  else if (ref_is (op, "swapw") || ref_is (op, "swapl") || ref_is (op, "swapq")) r = ref_bswap ((uint64_t) UA, ss0);
  else if (ref_is (op, "swapwl")) r = ((UA >> 16) & 0xffff) | ((UA & 0xffff) << 16);
  else if (ref_is (op, "swaplq")) r = ((UA >> 32) & 0xffffffffu) | ((UA & 0xffffffffu) << 32);
  else if (ref_has_prefix (op, "select0")) r = UA;	/* first half in memory order = low half (little endian) */
  else if (ref_has_prefix (op, "select1")) r = UA >> (8 * w);
  else if (ref_has_prefix (op, "merge")) r = UA | (UB << (8 * ss0));	/* first operand first in memory */
  else if (ref_has_prefix (op, "split")) { r = UA >> (8 * w); *d2 = (uint64_t) UA & ref_mask (w); }	/* d1 = second (high) half, d2 = first (low) half */
  else if (ref_is (op, "splatbw")) r = UA | (UA << 8);
  else if (ref_is (op, "splatbl")) r = UA | (UA << 8) | (UA << 16) | (UA << 24);
  else if (ref_is (op, "splatw3q")) { ref_i128 t = (UA >> 48) & 0xffff; r = t | (t << 16) | (t << 32) | (t << 48); }
  else return 0;
  *d = (uint64_t) r & ref_mask (w);
  return 1;
}

#endif
