# side_convsssql: XMM0 is free when convsssql is reached (its first occupant is dead), so the rule's constant was placed in XMM0, the implicit BLENDVPD mask
.function side_convsssql
.source 8 s1
.source 4 s2
.dest 4 d1
.dest 8 d2
.dest 4 d3
.temp 8 tq
.temp 8 tb
.temp 4 tl
convslq tq, s2
copyq tb, s1
copyq d2, tq
convsssql tl, tb
convql d3, tb
copyl d1, tl
